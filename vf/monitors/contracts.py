"""Contract monitors: icontract postconditions attached from the outside to the
real functions (and to the `from ... import` aliases that would bypass them).

The conditions *record and return True*: a failing contract never aborts the run
it observes.  Every contract counts its evaluations; zero evaluations makes the
check that relies on it inconclusive.
"""

import importlib
from typing import Any, Callable, Dict, List, Tuple

import icontract


class ContractBroken(Exception):
    """Never raised in practice (conditions return True); required by icontract's error=."""


class Recorder:
    def __init__(self, name: str) -> None:
        self.name = name
        self.evaluations = 0
        self.failures: List[Tuple[str, Any]] = []  # (mechanism, detail)

    def fail(self, mechanism: str, detail: Any) -> None:
        if len(self.failures) < 200:
            self.failures.append((mechanism, detail))

    def drain(self) -> List[Tuple[str, Any]]:
        out, self.failures = self.failures, []
        return out


_attached: Dict[str, Recorder] = {}


def attach_post(target: str, condition: Callable, aliases: List[str] = ()) -> Recorder:
    """Wrap `module:attr` with an icontract.ensure using `condition(recorder)`.

    `condition` is a factory: given the Recorder it returns the named condition
    function whose parameter names match the wrapped function (+ `result`).
    """
    if target in _attached:
        return _attached[target]
    rec = Recorder(target)
    modname, attr = target.split(":")
    mod = importlib.import_module(modname)
    holder = mod
    parts = attr.split(".")
    for part in parts[:-1]:
        holder = getattr(holder, part)
    original = getattr(holder, parts[-1])
    cond = condition(rec)
    wrapped = icontract.ensure(cond, error=ContractBroken)(original)
    setattr(holder, parts[-1], wrapped)
    for alias in aliases:
        amod, aattr = alias.split(":")
        m = importlib.import_module(amod)
        if getattr(m, aattr) is original:
            setattr(m, aattr, wrapped)
    _attached[target] = rec
    return rec


def recorders() -> Dict[str, Recorder]:
    return _attached
