"""Thread-preemption explorer for synchronous library functions.

`explore(fa, fb, src)` runs fa() in the calling thread under sys.settrace and, at one chosen line boundary of library code
(files under `src`), lets a second OS thread run fb() to completion before fa() continues - once for every line boundary
fa() passes.  That is the schedule a thread switch at that point produces; a module-level or per-object scratch variable
shared by the two calls shows as a wrong result of fa() or fb().  Deterministic: no sleeping, no switch-interval games.
"""

import sys
import threading
from typing import Any, Callable, Iterator, Tuple


class Raised:
    """Outcome wrapper for a call that raised."""

    def __init__(self, exc: BaseException) -> None:
        self.exc = exc

    def __repr__(self) -> str:
        return f"raised {type(self.exc).__name__}: {self.exc}"

    def __eq__(self, other) -> bool:
        return isinstance(other, Raised) and type(other.exc) is type(self.exc)

    def __hash__(self) -> int:
        return hash(type(self.exc))


def call(f: Callable[[], Any]) -> Any:
    try:
        return f()
    except Exception as exc:  # judged by the caller
        return Raised(exc)


def _run_with_preemption(fa, fb, src: str, at: int) -> Tuple[Any, Any, int]:
    """-> (result of fa, result of fb or None if `at` was never reached, number of line boundaries fa passed)."""
    state = {"n": 0, "rb": None, "ran": False}

    def run_b():
        state["rb"] = call(fb)

    def local(frame, event, arg):
        if event == "line":
            state["n"] += 1
            if state["n"] == at and not state["ran"]:
                state["ran"] = True
                t = threading.Thread(target=run_b, name="vf-preempting-thread")
                t.start()
                t.join(10.0)        # if fa holds a lock fb needs, fb finishes after fa went on: that is a legal schedule too
        return local

    def glob(frame, event, arg):
        if event == "call" and frame.f_code.co_filename.startswith(src):
            return local
        return None

    old = sys.gettrace()
    sys.settrace(glob)
    try:
        ra = call(fa)
    finally:
        sys.settrace(old)
    return ra, (state["rb"] if state["ran"] else None), state["n"]


def explore(fa: Callable[[], Any], fb: Callable[[], Any], src: str, max_points: int = 300, part: int = 0, parts: int = 1) -> Iterator[Tuple[int, Any, Any]]:
    """Yield (line boundary k, result of fa, result of fb) for every k at which fb() preempted fa().  With parts > 1 this
    worker takes the boundaries k = part (mod parts): together the workers of a run cover every boundary."""
    _, _, n = _run_with_preemption(fa, fb, src, at=-1)
    if n <= max_points:
        ks = range(1, n + 1)
    else:
        ks = [k for k in range(1, n + 1) if k % parts == part % parts]
        if len(ks) > max_points:
            ks = ks[:: max(1, len(ks) // max_points)]
    for k in ks:
        ra, rb, _ = _run_with_preemption(fa, fb, src, at=k)
        if rb is not None or k <= n:
            yield k, ra, rb
