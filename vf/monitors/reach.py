"""Reach monitor: counts entries into repository functions via sys.monitoring.

Code outside the repository's source tree is DISABLEd at first sight, so the
overhead is confined to aioswitcher's own functions.
"""

import sys
from typing import Dict

_counts: Dict[str, int] = {}
_prefix = ""
_on = False
TOOL = 3  # a free tool id (0..5); 2 is PROFILER_ID, keep away from debuggers/coverage


def _key(code) -> str:
    fn = code.co_filename
    mod = fn[len(_prefix):].lstrip("/").removesuffix(".py").replace("/", ".")
    if mod.endswith(".__init__"):
        mod = mod[: -len(".__init__")]
    return f"{mod}:{code.co_qualname}"


def _on_start(code, offset):
    if not code.co_filename.startswith(_prefix):
        return sys.monitoring.DISABLE
    k = _key(code)
    _counts[k] = _counts.get(k, 0) + 1
    return None


def start(src_prefix: str) -> None:
    global _prefix, _on
    _prefix = src_prefix.rstrip("/") + "/"
    mon = sys.monitoring
    try:
        mon.use_tool_id(TOOL, "vf-reach")
    except ValueError:
        return
    mon.register_callback(TOOL, mon.events.PY_START, _on_start)
    mon.set_events(TOOL, mon.events.PY_START)
    _on = True


def stop() -> None:
    global _on
    if _on:
        mon = sys.monitoring
        mon.set_events(TOOL, 0)
        mon.free_tool_id(TOOL)
        _on = False


def counts() -> Dict[str, int]:
    return dict(_counts)
