"""What the library handed out stays as it was: objects returned or delivered earlier are kept together with a snapshot of
their public state and looked at again later (after more calls, more datagrams, at the end of the case and of the run).
An object the harness itself edits on purpose is taken out first (`forget`)."""

from typing import Any, Dict, List, Tuple


def snapshot(obj: Any) -> Any:
    if isinstance(obj, (set, frozenset)):
        return ("set", sorted(repr(x) for x in obj))
    if isinstance(obj, (list, tuple)):
        return (type(obj).__name__, [snapshot(x) for x in obj])
    if isinstance(obj, dict):
        return ("dict", sorted((repr(k), snapshot(v)) for k, v in obj.items()))
    if isinstance(obj, (str, bytes, int, float, bool, type(None))):
        return repr(obj)
    state = getattr(obj, "__dict__", None)
    if state is None:
        return repr(obj)
    return (type(obj).__name__, sorted((k, snapshot(v) if isinstance(v, (set, frozenset, list, tuple, dict)) else repr(v)) for k, v in state.items()
                                       if not k.startswith("_") or k in ("_hex_response",)))


class Keep:
    def __init__(self, limit: int = 400) -> None:
        self.items: List[Tuple[Any, Any, str]] = []
        self.limit = limit
        self.looked = 0

    def add(self, obj: Any, what: str) -> None:
        if len(self.items) >= self.limit:
            self.items.pop(0)
        self.items.append((obj, snapshot(obj), what))

    def forget(self, obj: Any) -> None:
        self.items = [it for it in self.items if it[0] is not obj]

    def verify(self, acc, mechanism: str, when: str) -> None:
        for obj, snap, what in self.items:
            self.looked += 1
            now = snapshot(obj)
            if now != snap:
                diff = _first_difference(snap, now)
                acc.violation(mechanism, f"{what}: the object the library handed out earlier has changed by {when}: {diff}", {"what": what, "when": when})
        acc.count("objects_handed_out_earlier_looked_at_again", len(self.items))

    def clear(self) -> None:
        self.items = []


def _first_difference(a, b) -> str:
    if isinstance(a, tuple) and isinstance(b, tuple) and len(a) == 2 and len(b) == 2 and isinstance(a[1], list) and isinstance(b[1], list):
        da, db = dict(a[1]) if all(isinstance(x, tuple) and len(x) == 2 for x in a[1]) else None, None
        try:
            db = dict(b[1])
        except Exception:
            db = None
        if da is not None and db is not None:
            for k in sorted(set(da) | set(db)):
                if da.get(k) != db.get(k):
                    return f"{k} was {da.get(k)}, is now {db.get(k)}"
    return f"was {str(a)[:120]}, is now {str(b)[:120]}"
