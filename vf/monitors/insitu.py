"""Contracts that stay attached during the TCP workloads, so the helpers are judged
on every frame the API really builds (not only on direct calls)."""

from binascii import unhexlify

from . import contracts


def _post_set_length(rec):
    def header_length_is_total_length(message, result):
        rec.evaluations += 1
        try:
            raw = unhexlify(result)
            total = len(raw) + 4  # the signature is appended afterwards
            if int.from_bytes(raw[2:4], "little") != total:
                rec.fail("length-field-wrong", {"frame_bytes_with_signature": total, "field": raw[2:4].hex()})
            if result[8:] != message[8:] or result[:4].lower() != "fef0":
                rec.fail("set-length-altered-frame", {"in": message[:24], "out": result[:24]})
        except Exception as exc:
            rec.fail("monitor-error", repr(exc))
        return True

    return header_length_is_total_length


def _post_breeze_command(rec):
    def command_length_is_le16_of_payload(self):
        rec.evaluations += 1
        try:
            n = len(unhexlify(self.command))
            want = n.to_bytes(2, "little").hex()
            if str(self.length).lower() != want:
                rec.fail("ir-length-field-wrong", {"payload_bytes": n, "field": self.length, "want": want})
        except Exception as exc:
            rec.fail("monitor-error", repr(exc))
        return True

    return command_length_is_le16_of_payload


def attach_all():
    from ..props import c04, c12

    return {
        "sign": contracts.attach_post("aioswitcher.device.tools:sign_packet_with_crc_key", c04._post,
                                      aliases=["aioswitcher.api:sign_packet_with_crc_key"]),
        "set_length": contracts.attach_post("aioswitcher.device.tools:set_message_length", _post_set_length,
                                            aliases=["aioswitcher.api:set_message_length"]),
        "breeze_command": contracts.attach_post("aioswitcher.api.remotes:SwitcherBreezeCommand.__init__", _post_breeze_command),
        "weekdays": c12.attach()[0],
    }
