"""Two-thread probes built on vf.monitors.preempt.

`run_pairs` drives a list of (name, fa, fb, judge_a, judge_b): once preempted at a single, shard-dependent line boundary
before anything else has used the functions in this process ("first use": lazily built tables are still empty), then at
every line boundary.  `api_pair` builds such a pair out of two API operations, each run to completion by asyncio.run in
its own thread over an in-memory connection; what an operation writes must not depend on the other one running.
"""

import asyncio
from typing import Any, Callable, Dict, List, Optional, Tuple

from .. import env, ops
from ..fakes import memstream
from ..fakes import tcp_device as td
from . import preempt


FROZEN_AT = 1_800_000_123.0     # Tue 2027-01-15 08:02:03 UTC


def run_pairs(acc, pairs, shard: int, nshards: int = 1, max_points: int = 150) -> None:
    from ..ref import clock

    with clock.virtual_time(FROZEN_AT):
        _run_pairs(acc, pairs() if callable(pairs) else pairs, shard, nshards, max_points)


def _run_pairs(acc, pairs, shard: int, nshards: int, max_points: int) -> None:
    src = str(env.SRC)
    for name, fa, fb, judge_a, judge_b in pairs:
        def judge(k, ra, rb, how):
            for who, res, jf in (("the preempted call", ra, judge_a), ("the preempting call", rb, judge_b)):
                if res is None and who == "the preempting call":
                    continue
                msg = jf(res)
                if msg:
                    acc.violation(f"thread-interference:{name}{how}", f"{name}: two threads, a switch at line boundary {k} of the first call: {who} {msg}",
                                  {"pair": name, "boundary": k})
        # one schedule per worker, denser where lazily built tables get filled (the first lines of the first call)
        k0 = (2, 5, 8, 11, 14, 17, 3, 6, 9, 12, 20, 24, 28, 33, 39, 46)[shard % 16] if nshards < 12 else (1, 2, 3, 4, 5, 6, 8, 10, 12, 14, 16, 19, 22, 26, 30, 35)[shard % 16]
        ra, rb, n = preempt._run_with_preemption(fa, fb, src, at=k0)
        acc.ev()
        acc.count("thread_schedules_first_use")
        judge(k0, ra, rb, ":first-use")
        for k, ra, rb in preempt.explore(fa, fb, src, max_points=max_points, part=shard, parts=nshards):
            acc.ev()
            acc.count("thread_schedules_explored")
            judge(k, ra, rb, "")


def expect(value) -> Callable[[Any], Optional[str]]:
    def j(res):
        if isinstance(res, preempt.Raised):
            return None if isinstance(value, preempt.Raised) and res == value else f"{res!r}, want {value!r}"
        return None if (res == value and type(res) is type(value)) else f"returned {res!r}, want {value!r}"
    return j


_tls = __import__("threading").local()
_dispatch_installed = False


def _install_dispatch():
    """aioswitcher.api.open_connection -> in-memory pair for threads that asked for one (thread-local), the real thing otherwise."""
    global _dispatch_installed
    if _dispatch_installed:
        return
    import aioswitcher.api as api_mod

    original = api_mod.open_connection

    async def open_connection(host=None, port=None, **kw):
        responder = getattr(_tls, "responder", None)
        if responder is None:
            return await original(host=host, port=port, **kw)
        conn = memstream.MemConn(responder)
        _tls.conn = conn
        return memstream.MemReader(conn), memstream.MemWriter(conn)

    api_mod.open_connection = open_connection
    _dispatch_installed = True


def api_pair(name: str, a: Dict[str, Any], b: Dict[str, Any], thermostat: Dict[str, Any] = None):
    """a / b: {"type": 1|2, "id": hex, "key": hex, "op": str, "args": dict, "remote": remote or None, "family": str}.
    -> (name, fa, fb, judge_a, judge_b); the judges compare the frames written with those of an undisturbed run."""
    import aioswitcher.api as api_mod

    _install_dispatch()
    healthy = {"thermostat": td.auto_responder(thermostat=thermostat, family="thermostat"), "shutter": td.auto_responder(family="shutter")}

    def runner(tag, spec):
        def run():
            async def main():
                _tls.responder = healthy[spec.get("family", "thermostat")]
                cls = api_mod.SwitcherType1Api if spec["type"] == 1 else api_mod.SwitcherType2Api
                api = cls("192.0.2.%d" % (1 if tag == "a" else 2), spec["id"], spec["key"])
                try:
                    await api.connect()
                    conn = _tls.conn
                    try:
                        await ops.call(api, spec["op"], spec["args"], spec.get("remote"))
                    except Exception as exc:
                        return ("raised", type(exc).__name__, [f.hex() for f in conn.frames])
                    return ("returned", None, [f.hex() for f in conn.frames])
                finally:
                    _tls.responder = None
                    try:
                        await api.disconnect()
                    except Exception:
                        pass

            return asyncio.run(main())
        return run

    fa, fb = runner("a", a), runner("b", b)
    base_a, base_b = preempt.call(fa), preempt.call(fb)

    def judge_for(base, who):
        def j(res):
            if res == base:
                return None
            if isinstance(res, preempt.Raised) or isinstance(base, preempt.Raised):
                return f"ended with {res!r}; undisturbed it ends with {str(base)[:80]!r}"
            diff = next((n for n, (x, y) in enumerate(zip(res[2], base[2])) if x != y), min(len(res[2]), len(base[2])))
            got = res[2][diff] if diff < len(res[2]) else "(nothing)"
            want = base[2][diff] if diff < len(base[2]) else "(nothing)"
            return (f"({who}) outcome {res[0]} {res[1] or ''}, frame #{diff} written is {got[:100]}..., undisturbed it is {want[:100]}... "
                    f"({len(res[2])} frames vs {len(base[2])})")
        return j

    return (name, fa, fb, judge_for(base_a, "first"), judge_for(base_b, "second"))
