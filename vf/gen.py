"""Generators of hostile inputs shared by the workloads (all seeded)."""

import string
from typing import Any, Dict, List

ASCII = string.ascii_letters + string.digits + " _-.'"
HEBREW = "אבגדהוזחטיכלמנסעפצקרשתםןץףך"
ACCENTED = "éèêëàâäôöùûüçñßøåÉÈÀÖÜÇ"
CJK = "日本語中文한국어漢字假名"
EMOJI = "😀🏠🔥💧🌡🚿⚡🛁"
DECOMPOSED = "e\u0301o\u0308a\u030aA\u030an\u0303\u212b\ufb2a\u05e9\u05b8\u05bc\u05d1\u05b0u\u0308 "   # combining marks, compatibility forms
BIDI = "אבגדה\u200e\u200f\u061c\u202a\u202b\u202c\u2066\u2067\u2069 שלום"      # right-to-left letters with the invisible direction marks editors add
MARKUP = "100% {on} %s %d %(x)s {0} $x \\n \\x00 a|b;c:d,e \"q\" 'q' <b>&amp;#@!?*()[]=+~`^/ \t"      # what format strings, templates, shells, markup and csv give a meaning to
POOLS = {"markup": MARKUP, "bidi": BIDI, "decomposed": DECOMPOSED, "ascii": ASCII, "hebrew": HEBREW + " ", "accented": ACCENTED + "abc ", "cjk": CJK, "emoji": EMOJI + "ab"}


def name_of(r, nchars: int, pool: str = None) -> str:
    pool = pool or r.choice(list(POOLS))
    chars = POOLS[pool]
    s = "".join(r.choice(chars) for _ in range(nchars))
    return s


def name_fitting(r, max_bytes: int = 32, min_chars: int = 2, pool: str = None) -> str:
    """A name of >= min_chars characters and <= max_bytes UTF-8 bytes, not ending in NUL/space issues."""
    pool = pool or r.choice(list(POOLS))
    target = r.randrange(min_chars, 33)
    s = ""
    while len(s) < target:
        c = r.choice(POOLS[pool])
        if len((s + c).encode()) > max_bytes:
            break
        s += c
    while len(s) < min_chars:
        s += "x"
    return s


PROTOCOL_CONSTANTS = ["fef0", "f0fe", "fef00000", "fef0000", "f0fe00", "fef0f0fe", "0a", "3030", "7c", "00"]


def coincidence(r, nbytes: int) -> bytes:
    """nbytes of random data that happen to contain one of the protocol's own constants (magic, terminator,
    zeroed header, newline, key padding, separator) at an arbitrary nibble offset."""
    n = 2 * nbytes
    c = r.choice(PROTOCOL_CONSTANTS)
    s = "".join(r.choice("0123456789abcdef") for _ in range(n))
    if len(c) >= n:
        return bytes.fromhex((c + s)[:n])
    pos = r.randrange(0, n - len(c) + 1)
    return bytes.fromhex((s[:pos] + c + s[pos + len(c):])[:n])


def device_id(r) -> str:
    if r.random() < 0.08:
        return coincidence(r, 3).hex()
    edge = ["000000", "ffffff", "fef0f0", "f0fe00", "aaaaaa", "0000fe"]
    s = r.choice(edge) if r.random() < 0.1 else f"{r.randrange(1 << 24):06x}"
    return s.upper() if r.random() < 0.1 else s


def device_key(r) -> str:
    s = r.choice(["00", "ff", "18", "fe", "f0"]) if r.random() < 0.2 else f"{r.randrange(256):02x}"
    return s.upper() if r.random() < 0.1 else s


def session(r) -> bytes:
    if r.random() < 0.08:
        return coincidence(r, 4)
    if r.random() < 0.08:
        return r.choice([bytes(4), b"\xff" * 4, bytes.fromhex("fef0f0fe"), bytes.fromhex("f0fe0000"), bytes.fromhex("00000001")])
    return r.randbytes(4)


def epoch(r) -> float:
    """'Any current time' in [0, 2^32): edges, near-rounding fractions, uniform."""
    x = r.random()
    if x < 0.1:
        base = r.choice([0, 1, 2 ** 31 - 1, 2 ** 31, 2 ** 32 - 2, 1_700_000_000, 0x5CB38DEF, 255, 256, 65535, 65536])
    elif x < 0.5:
        base = r.randrange(1_500_000_000, 1_900_000_000)
    else:
        base = r.randrange(0, 2 ** 32 - 1)
    frac = r.choice([0.0, 0.25, 0.49, 0.51, 0.75, r.random()])
    v = base + frac
    return min(v, 2 ** 32 - 1.6)


# ------------------------------------------------------------------ IR sets

MODE_PREFIX = {"AUTO": "aa", "DRY": "ad", "FAN": "aw", "COOL": "ar", "HEAT": "ah"}
ORDINARY_IDS = ["ELEC7001", "ELEC7002", "DLK70001", "GREE0042", "TADI1234", "ZM079001"]
SPECIAL_IDS = ["ELEC7022", "ZM079055", "ZM079065", "ZM079049"]
B36 = string.digits + string.ascii_uppercase


def _b36(n: int) -> str:
    s = ""
    while True:
        s = B36[n % 36] + s
        n //= 36
        if n == 0:
            return s


def irset(r, toggle: bool = None, special: bool = None, density: float = None, long_codes: bool = True) -> Dict[str, Any]:
    """A generated IR code set.  Every key has a unique Para so the payload identifies the key."""
    toggle = r.random() < 0.5 if toggle is None else toggle
    special = r.random() < 0.4 if special is None else special
    density = r.choice([1.0, 0.85, 0.6, 0.35]) if density is None else density
    rid = r.choice(SPECIAL_IDS if special else ORDINARY_IDS)
    modes = [m for m in MODE_PREFIX if r.random() < max(density, 0.5)] or ["COOL"]
    lo = r.randrange(10, 22) if r.random() < 0.8 else r.randrange(22, 38)
    hi = r.randrange(lo, 41)
    keys: List[str] = []
    for m in modes:
        p = MODE_PREFIX[m]
        if m in ("COOL", "HEAT"):
            bases = [p + str(t) for t in range(lo, hi + 1) if t in (lo, hi) or r.random() < max(density, 0.7)]
        else:
            bases = [p]
        for b in bases:
            if r.random() < 0.35:
                keys.append(b)  # entry without fan level
            if r.random() < 0.12:
                keys.append(b + "_d1")  # a swing entry without a fan level: stored, but never what "drop swing, then fan" arrives at
            for fan in ("_f0", "_f1", "_f2", "_f3"):
                if r.random() < density:
                    keys.append(b + fan)
                    if r.random() < density * 0.8:
                        keys.append(b + fan + "_d1")
                elif r.random() < 0.1:
                    keys.append(b + fan + "_d1")  # swing entry without its plain sibling
    temp_modes = [m for m in modes if m in ("COOL", "HEAT")]
    if temp_modes and r.random() < 0.06:
        # a frost-protection / eco entry far below the comfort range: a one-digit temperature under a bare key ("ah8")
        keys.append(MODE_PREFIX[r.choice(temp_modes)] + str(r.randrange(5, 10)))
    # keep the declared temperature range visible in the plain keys
    if toggle:
        plain = list(keys)
        for k in plain:
            if r.random() < density:
                keys.append("on_" + k)
        if r.random() < 0.4:
            # power-changing codes need not mirror the plain ones: swing / fan variants that exist only in on_ form
            for k in plain:
                for extra in ("_d1", "_f1_d1", "_f2"):
                    cand = "on_" + k + extra
                    if not k.endswith("_d1") and r.random() < 0.15 and cand not in keys and k.count("_f") + extra.count("_f") <= 1:
                        keys.append(cand)
        if r.random() < 0.25:
            # one mode whose swing codes exist only in power-changing form
            m0 = MODE_PREFIX[r.choice(modes)]
            plain_d1 = [k for k in keys if k.startswith(m0) and k.endswith("_d1")]
            keys = [k for k in keys if k not in plain_d1]
            for k in [k for k in keys if k.startswith(m0) and "_f" in k and not k.endswith("_d1")]:
                if "on_" + k + "_d1" not in keys and r.random() < 0.8:
                    keys.append("on_" + k + "_d1")
        if r.random() < 0.3:
            keys.append("off")      # legal, unusual: a toggle set that also ships a plain off code (never used for a toggle remote)
    else:
        keys.append("off")
    if special:
        keys += ["FUN_d0", "FUN_d1"]
    # key order in the file: shuffled, as written (mode by mode, temperatures ascending), or with an extreme temperature
    # stored exactly once and first/last among the temperature keys (range scans depend on order and multiplicity)
    style = r.choice(["shuffled", "shuffled", "shuffled", "as_written", "descending", "min_once_first", "max_once_first", "min_once_last", "single_temp",
                      "non_mode_first", "prefixed_last"])
    if style == "non_mode_first":
        # a sorted listing starts with FUN_d0 / off / on_...: the first entry is not a mode key
        keys.sort(key=lambda k: (0 if k[:2] in ("FU", "of", "on") else 1, k))
    elif style == "prefixed_last":
        # all power-changing codes listed after all plain ones (grouped by kind, not next to their plain twins)
        keys.sort(key=lambda k: (1 if k.startswith("on_") else 0))
    if style == "descending":
        keys.reverse()       # as written, but from the warmest to the coldest
    if style == "shuffled":
        r.shuffle(keys)
    elif style not in ("as_written", "descending", "non_mode_first", "prefixed_last"):
        tkeys = [k for k in keys if k[:2] in ("ar", "ah") and k[2:4].isdigit()]
        if tkeys:
            temps = sorted({int(k[2:4]) for k in tkeys})
            ext = temps[-1] if style == "max_once_first" else temps[0]
            if style == "single_temp":
                keep_t = r.choice(temps)
                drop = [k for k in tkeys if int(k[2:4]) != keep_t]
                keys = [k for k in keys if k not in drop and not (k.startswith("on_") and k[3:] in drop)]
                ext = keep_t
                tkeys = [k for k in keys if k[:2] in ("ar", "ah") and k[2:4].isdigit()]
            ext_keys = [k for k in tkeys if int(k[2:4]) == ext]
            only = r.choice(ext_keys)
            gone = [k for k in ext_keys if k != only]
            keys = [k for k in keys if k not in gone and not (k.startswith("on_") and k[3:] in gone)]
            keys.remove(only)
            rest_t = [k for k in keys if k[:2] in ("ar", "ah") and k[2:4].isdigit()]
            others = [k for k in keys if k not in rest_t]
            keys = others + ([only] + rest_t if style.endswith("first") or style == "single_temp" else rest_t + [only])
    waves = []
    for i, k in enumerate(keys):
        x = r.random()
        if not long_codes:
            total = r.randrange(20, 60)
        elif x < 0.12:
            total = r.randrange(3, 12)      # payload (4 + total) below 16 bytes
        elif x < 0.30:
            total = r.randrange(240, 300)   # around the one-byte boundary
        elif x < 0.38:
            total = r.randrange(300, 2001)
        elif x < 0.44:
            # the whole signed frame (91 + text) lands on or next to a block size a writer might use
            total = r.choice([255, 256, 257, 511, 512, 513, 768, 1023, 1024, 1025, 1536, 2047, 2048, 2049]) - 91
        else:
            total = r.randrange(12, 240)
        if k == "off" and r.random() < 0.3:
            total = r.randrange(3, 12)
        para = _b36(i)
        rest = max(1, total - len(para) - 1)
        hexcode = "".join(r.choice("0123456789ABCDEF") for _ in range(rest))
        x2 = r.random()
        if long_codes and x2 < 0.03:
            para, hexcode = "", "E" + _b36(i) + hexcode[:6]          # empty first part: the text starts with the separator
        elif long_codes and x2 < 0.06:
            para, hexcode = "P" + _b36(i), ""                        # empty second part: the text ends with the separator
        elif long_codes and x2 < 0.07 and not any(w["Para"] == "" and w["HexCode"] == "" for w in waves):
            para, hexcode = "", ""                                   # the shortest possible text: the separator alone (1 byte)
        waves.append({"Key": k, "Para": para, "HexCode": hexcode})
    if long_codes and len(waves) > 4 and r.random() < 0.3:
        # two entries whose two parts join to the same string but are split in different places ("1A" + "3F00" / "1A3F" + "00")
        for _ in range(r.randrange(1, 4)):
            a, b = r.sample(range(len(waves)), 2)
            pa, ha = waves[a]["Para"], waves[a]["HexCode"]
            if len(ha) >= 4 and pa and waves[b]["Key"] != "off":
                cut = r.randrange(1, min(len(ha) - 1, 6))
                cand = pa + ha[:cut]
                if all(w["Para"] != cand for w in waves):
                    waves[b]["Para"], waves[b]["HexCode"] = cand, ha[cut:]
    return {"IRSetID": rid, "OnOffType": 1 if toggle else 0, "IRWaveList": waves}


# ------------------------------------------------------------------ status broadcasts

MODELS = ["MINI", "POWER_PLUG", "TOUCH", "V2_ESP", "V2_QCA", "V4", "BREEZE", "RUNNER", "RUNNER_MINI"]
RID_CHARS = string.ascii_uppercase + string.digits


def broadcast_desc(r, model: str, i: int, tag: str) -> Dict[str, Any]:
    """A device description over the full field domains; i drives the per-byte sweeps."""
    ip = [r.randrange(256) for _ in range(4)]
    mac = [r.randrange(256) for _ in range(6)]
    pos = i % 10
    val = (i // 10) % 256
    if pos < 4:
        ip[pos] = val
    else:
        mac[pos - 4] = val
    name = name_fitting(r, 32, 1)
    if i % 7 == 0:
        # exactly 32 bytes (no padding at all)
        pool = r.choice(list(POOLS))
        name = ""
        while len(name.encode()) < 32:
            c = r.choice(POOLS[pool])
            if len((name + c).encode()) <= 32:
                name += c
            elif len(name.encode()) < 32:
                name += "x"
    if r.random() < 0.03:
        # a name saved by a desktop tool: it starts with U+FEFF (zero width no-break space / byte order mark), which is part of the name
        cut = name
        while len(("\ufeff" + cut).encode()) > 32:
            cut = cut[:-1]
        name = "\ufeff" + cut
    if r.random() < 0.04 and len(name.encode()) >= 3:
        name = r.choice([" " + name[1:], name[:-1] + " ", " " + name[1:-1] + " ", "\u00a0" + name[2:] if len((("\u00a0" + name[2:]).encode())) <= 32 else name])
    d: Dict[str, Any] = {
        "model": model, "device_id": tag, "device_key": f"{r.randrange(256):02x}", "name": name,
        "ip": ".".join(map(str, ip)), "mac": ":".join(f"{b:02X}" for b in mac),
        "state": ("ON", "OFF")[(i // 3) % 2],
    }
    edge16 = [0, 1, 219, 220, 221, 255, 256, 65535, 2600]
    edge_t = [0, 1, 59, 60, 3599, 3600, 86399, 5400]
    d["power"] = r.choice(edge16) if r.random() < 0.15 else r.randrange(65536)
    if r.random() < 0.06:
        d["power"] = r.randrange(0, 60)        # a few watts: where 0.0 / 0.1 / 0.2 A are decided
    elif r.random() < 0.03:
        d["power"] = r.randrange(21900, 22100)  # around 99.9 / 100.0 A
    d["remaining"] = r.choice(edge_t) if r.random() < 0.15 else r.randrange(86400)
    d["auto_shutdown"] = r.choice(edge_t) if r.random() < 0.15 else r.randrange(86400)
    d["position"] = i % 101
    d["direction"] = ("STOP", "UP", "DOWN")[(i // 101 + i) % 3]
    d["mode"] = ("AUTO", "DRY", "FAN", "COOL", "HEAT")[i % 5]
    d["fan"] = ("AUTO", "LOW", "MEDIUM", "HIGH")[(i // 5) % 4]
    d["swing"] = ("ON", "OFF")[(i // 20) % 2]
    d["temp_tenths"] = r.choice(edge16) if r.random() < 0.15 else r.randrange(65536)
    d["target"] = r.randrange(256)
    d["clock"] = 1_790_000_000 + r.randrange(-12, 13)     # the device's own clock (header bytes 24..27): devices under one id differ by seconds, both ways
    d["remote_id"] = "".join(r.choice(RID_CHARS) for _ in range(8))
    if r.random() < 0.04:
        # the ids of real remotes, also as a device with another firmware spells them
        rid = r.choice(["ELEC7022", "ELEC7001", "ZM079055", "DLK65863"])
        d["remote_id"] = r.choice([rid, rid.lower(), rid.capitalize(), rid[:4] + rid[4:].lower()])
    if d["state"] == "OFF" and r.random() < 0.3:
        d["state_code"] = r.choice([0, 0, 2, 3, 0x10, 0xFF])  # anything but 01 is "off"
    return d
