"""The rest of the application.

A check exercises one feature of the library; an application uses all of them in one process.  The tour is that application:
a quiet, valid-inputs-only round through every public feature (signing and the small device tools, schedule tools and
listings, reply parsing, Breeze remotes from a database file, broadcast parsing, a running bridge, both TCP clients against
a private fake device).  It is run
  * before the first case in the workers with an even shard number (so in half of the workers every feature is first used
    by the tour, in the other half by the check itself),
  * one leg between cases every few cases (round robin), and
  * in the background of the asynchronous checks (one leg every few milliseconds of event-loop time, interleaved with
    whatever the check awaits), with a bridge that stays started and two TCP clients that stay connected meanwhile.
Nothing is judged here - the checks judge, as before, what their own feature does; a tour leg that raises is counted and
otherwise ignored (a defect of another feature is another property's business).  What the tour changes is the *history of
the process*: state shared between features (module-level tables, class attributes, defaults of the interpreter or the
event loop that one feature sets as a side effect) is only wrong once another feature has been there.
"""

import asyncio
import json
import random
import shutil
from collections import deque
import tempfile
from datetime import timedelta
from pathlib import Path
from typing import Any, Dict, List

from . import env, gen

LEGS = ["tools", "schedule", "replies", "remotes", "datagrams", "bridge", "api1", "api2", "rejected", "refused", "reset", "noisy"]
PORT_BASE = 47300
REAL_REMOTE_IDS = ["ELEC7022", "ELEC7001", "ZM079055", "DLK65863"]

# what the checks tell the tour about the devices they talk to: an application discovers over UDP the very devices it controls
# over TCP, so the same device ids (and remote ids) pass through the bridge while the check's clients are at work
DEVICES = deque(maxlen=48)      # (device id, key, api type)
REMOTES = deque(maxlen=12)      # remote ids


ACTIVE = None


def note_device(device_id: str, key: str, api_type: int) -> None:
    DEVICES.append((device_id, key, api_type))
    if ACTIVE is not None and ACTIVE.r.random() < 0.5:
        ACTIVE.announce(device_id, key, api_type)


def note_remote(remote_id: str) -> None:
    if isinstance(remote_id, str) and 1 <= len(remote_id) <= 8 and remote_id.isascii():
        REMOTES.append(remote_id)


def _round_seconds(r) -> int:
    """Times as devices and people set them: whole minutes, quarters of an hour, hours - and sometimes anything."""
    x = r.random()
    if x < 0.4:
        return 60 * r.randrange(0, 1440)
    if x < 0.7:
        return 900 * r.randrange(0, 96)
    if x < 0.85:
        return 3600 * r.randrange(0, 24)
    return r.randrange(86400)


DIRECT = {"on": False}


async def _bounded(coro, limit: float = 20.0):
    """Await coro under a limit on the real clock (event-loop time is virtual here and may jump by hours).  The legs run
    before and between the cases are awaited in the worker's own task (what they leave behind in the task's context stays)."""
    if DIRECT["on"]:
        return await coro
    task = asyncio.ensure_future(coro)
    t0 = env.REAL_MONOTONIC()
    while not task.done():
        await asyncio.wait({task}, timeout=0.05)
        if not task.done() and env.REAL_MONOTONIC() - t0 > limit:
            task.cancel()
            try:
                await task
            except BaseException:
                pass
            raise TimeoutError("tour leg got no answer")
    return task.result()


class Tour:
    def __init__(self, shard: int, acc) -> None:
        self.shard, self.acc = shard, acc
        self.r = random.Random(0xC0FFEE + shard)
        self.n = 0
        self.sent = 0
        self.tmp = None
        self.dev = None
        self.half = None
        self.bridge = None
        self.bridge_ports = [PORT_BASE + 4 * (shard % 60) + k for k in range(2)]
        self.delivered = 0
        self.clients: Dict[int, Any] = {}
        self.remote = None
        self.task = None
        self.stopping = False
        self.everything = False
        self.noisy = True
        self.raise_next = False
        global ACTIVE
        ACTIVE = self

    # ------------------------------------------------------------------ bookkeeping
    def _count(self, leg: str, ok: bool) -> None:
        self.acc.count(f"tour_leg_{leg}" if ok else f"tour_leg_{leg}_raised")

    async def leg(self, name: str) -> None:
        try:
            f = getattr(self, "leg_" + name)
            res = f()
            if asyncio.iscoroutine(res):
                await res
            self._count(name, True)
        except asyncio.CancelledError:
            raise
        except BaseException:      # whatever another feature does wrong is not this check's finding
            self._count(name, False)

    async def all_legs(self, order=None) -> None:
        """Everything once, every operation of both clients included, in an order that differs from worker to worker."""
        if order == "udp-first":
            order = ["datagrams", "bridge"] + [x for x in LEGS if x not in ("datagrams", "bridge")]
        elif order == "tcp-first":
            order = ["api1", "api2", "replies"] + [x for x in LEGS if x not in ("api1", "api2", "replies")]
        else:
            order = list(LEGS)
            random.Random(self.shard).shuffle(order)
        self.everything = True
        DIRECT["on"] = True
        try:
            for name in order:
                await self.leg(name)
        finally:
            self.everything = False
            DIRECT["on"] = False

    async def next_leg(self, direct: bool = False) -> None:
        self.n += 1
        DIRECT["on"] = direct
        try:
            await self.leg(LEGS[self.n % len(LEGS)])
        finally:
            DIRECT["on"] = False

    def announce(self, device_id: str, key: str, api_type: int) -> None:
        """The device a check is about to talk to broadcasts its status just now (the tour's bridge hears it)."""
        import socket

        if self.bridge is None or self.stopping:
            return
        try:
            DEVICES.append((device_id, key, api_type))
            data = [b for b in self._broadcasts(6, only=(device_id, key, api_type))][:1]
            s_ = socket.socket(socket.AF_INET, socket.SOCK_DGRAM)
            try:
                for b in data:
                    s_.sendto(b, ("127.0.0.1", self.bridge_ports[0]))
                    self.acc.count("tour_broadcasts_of_the_device_the_check_talks_to")
            finally:
                s_.close()
        except Exception:
            pass

    # ------------------------------------------------------------------ synchronous legs
    def leg_tools(self) -> None:
        import aioswitcher.device.tools as t

        r = self.r
        t.sign_packet_with_crc_key(r.randbytes(r.randrange(1, 90)).hex())
        t.string_to_hexadecimale_device_name(gen.name_fitting(r))
        t.seconds_to_iso_time(_round_seconds(r))
        t.watts_to_amps(r.randrange(65536))
        t.current_timestamp_to_hexadecimal()
        t.minutes_to_hexadecimal_seconds(r.choice([1, 15, 30, 45, 60, 90, 120, r.randrange(1, 1090)]))
        t.timedelta_to_hexadecimal_seconds(timedelta(hours=r.randrange(1, 24), minutes=r.randrange(60)))
        t.set_message_length("fef0" + "0000" + r.randbytes(r.randrange(10, 60)).hex())
        if hasattr(t, "convert_str_to_devicetype"):
            t.convert_str_to_devicetype("Switcher Breeze")
        if hasattr(t, "convert_token_to_packet"):
            pass                      # needs the cryptography package's key material: not part of any property

    def leg_schedule(self) -> None:
        import aioswitcher.schedule as sch
        import aioswitcher.schedule.tools as st
        from aioswitcher.schedule.parser import SwitcherSchedule, get_schedules

        from .ref import replies

        r = self.r
        days = set(r.sample(list(sch.Days), r.randrange(1, 8)))
        mask = int(st.weekdays_to_hexadecimal(days), 16)
        st.bit_summary_to_days(mask)
        hhmm = f"{r.randrange(24):02d}:{r.choice([0, 15, 30, 45, r.randrange(60)]):02d}"
        st.hexadecimale_timestamp_to_localtime(st.time_to_hexadecimal_timestamp(hhmm).encode())
        st.calc_duration(hhmm, f"{r.randrange(24):02d}:{r.choice([0, 15, 30, 45, r.randrange(60)]):02d}")
        st.pretty_next_run(hhmm, days)
        st.pretty_next_run(hhmm, set())
        SwitcherSchedule(str(r.randrange(8)), bool(r.randrange(2)), days, hhmm, "23:59")
        now = 1_795_000_000 + r.randrange(86400)
        recs = [replies.schedule_record(k, (r.randrange(2, 255) & 0xFE) | (r.random() < 0.2), now + 600 * k, now + 600 * k + 1800) for k in range(r.randrange(0, 5))]
        from aioswitcher.api.messages import SwitcherGetSchedulesResponse

        resp = SwitcherGetSchedulesResponse(replies.schedules(recs))
        list(resp.schedules)
        get_schedules(resp.unparsed_response)

    def leg_replies(self) -> None:
        import aioswitcher.api.messages as m
        import aioswitcher.device as dv

        from .ref import replies

        r = self.r
        m.SwitcherLoginResponse(replies.login(r.randbytes(4)))
        m.SwitcherStateResponse(replies.state1({"state": r.choice(["ON", "OFF"]), "power": r.randrange(3000), "time_left": _round_seconds(r),
                                                "time_on": _round_seconds(r), "auto_shutdown": max(3600, _round_seconds(r))}))
        m.SwitcherShutterStateResponse(replies.shutter({"position": r.randrange(101), "direction": r.choice(["STOP", "UP", "DOWN"])}))
        m.SwitcherThermostatStateResponse(replies.thermostat({"temp_tenths": r.randrange(100, 400), "state": r.choice(["ON", "OFF"]),
                                                              "mode": r.choice(["AUTO", "DRY", "FAN", "COOL", "HEAT"]), "target": r.randrange(16, 31),
                                                              "fan": r.choice(["AUTO", "LOW", "MEDIUM", "HIGH"]), "swing": r.choice(["ON", "OFF"]),
                                                              "remote_id": "ELEC7001"}))
        if r.random() < 0.4:
            raw = bytearray(replies.thermostat({"temp_tenths": 250, "state": "ON", "mode": "COOL", "target": 24, "fan": "LOW", "swing": "OFF", "remote_id": "ELEC7001"}))
            raw[78] = r.choice([2, 3, 0x10, 0xFF])                     # a power byte that is neither 00 nor 01
            if r.random() < 0.5:
                raw[81] = (r.randrange(4, 16) << 4) | (raw[81] & 0x0F)  # a fan level the library does not know
            try:
                m.SwitcherThermostatStateResponse(replies._resign(raw))
            except Exception:
                pass
        m.SwitcherBaseResponse(replies.ack())
        for member in list(dv.DeviceType):
            member.value, member.hex_rep, member.protocol_type, member.category
        import aioswitcher.api as api_mod

        for cat in list(dv.DeviceCategory):
            try:
                api_mod.SWITCHER_DEVICE_TO_TCP_PORT[cat]
            except Exception:
                pass

    @staticmethod
    def _temperature(r, remote) -> int:
        lo, hi = remote.min_temperature, remote.max_temperature
        return r.randrange(lo, hi + 1) if lo <= hi else 24       # a set without temperature modes

    def leg_remotes(self) -> None:
        import aioswitcher.api.remotes as remotes
        import aioswitcher.device as dv

        r = self.r
        if self.tmp is None:
            self.tmp = Path(tempfile.mkdtemp(prefix="vf-tour-"))
        sets = {}
        for k in range(2):
            irs = gen.irset(r, toggle=bool(k), special=(r.random() < 0.3), long_codes=False)
            if k == 0:
                irs["IRSetID"] = r.choice(REAL_REMOTE_IDS + list(REMOTES))
            sets[irs["IRSetID"]] = irs
        db = self.tmp / "tour_remotes.json"
        db.write_text(json.dumps(sets))
        mgr = remotes.SwitcherBreezeRemoteManager(str(db))
        for rid, irs in sets.items():
            remote = mgr.get_remote(rid)
            self.remote = remote
            remote.modes_features, remote.supported_modes, remote.remote_id, remote.separated_swing_command, remote.min_temperature
            for _ in range(3):
                mode = r.choice(list(remote.supported_modes) or list(dv.ThermostatMode))
                try:
                    remote.build_command(r.choice(list(dv.DeviceState)), mode, self._temperature(r, remote),
                                         r.choice(list(dv.ThermostatFanLevel)), r.choice(list(dv.ThermostatSwing)),
                                         r.choice([None, dv.DeviceState.ON, dv.DeviceState.OFF]))
                except (RuntimeError, KeyError):
                    pass              # a request this set cannot serve
        if r.random() < 0.5:
            db.unlink()       # the application's scratch directory is cleaned up; the manager object lives on
        # the database the library ships (emptied in scratch copies: then it has no remotes, which is fine)
        try:
            remotes.SwitcherBreezeRemoteManager()
        except Exception:
            pass

    def _broadcasts(self, n: int, only=None) -> List[bytes]:
        from .ref import broadcast as rb

        out = []
        for _ in range(n):
            if only is not None and out:
                break
            self.sent += 1
            model = gen.MODELS[self.sent % len(gen.MODELS)]
            d = gen.broadcast_desc(self.r, model, self.r.randrange(10 ** 6), f"{0xEE0000 + self.sent % 0xFFFF:06x}")
            d["name"] = "tour " + model.lower()[:20]
            d["remaining"], d["auto_shutdown"] = _round_seconds(self.r), _round_seconds(self.r)
            d.pop("state_code", None)
            if self.r.random() < 0.5:
                d["power"] = 60 * self.r.randrange(1, 1092) if self.r.random() < 0.6 else 100 * self.r.randrange(1, 40)   # round numbers of watts
            if only is not None or (DEVICES and self.r.random() < 0.6):
                dev_id, key, t = only or self.r.choice(list(DEVICES))
                if only is not None and (t == 2) != (model in ("BREEZE", "RUNNER", "RUNNER_MINI")):
                    continue
                if len(dev_id) == 6 and len(key) == 2:
                    try:
                        int(dev_id, 16), int(key, 16)
                    except ValueError:
                        pass
                    else:
                        fits = (t == 2) == (model in ("BREEZE", "RUNNER", "RUNNER_MINI"))
                        if fits:
                            d["device_id"] = dev_id.lower()
                            d["device_key"] = key if self.r.random() < 0.5 else f"{self.r.randrange(256):02x}"
            if model == "BREEZE" and self.r.random() < 0.7:
                d["remote_id"] = self.r.choice(REAL_REMOTE_IDS + list(REMOTES)).ljust(8, "0")[:8]
            out.append(rb.encode(d))
        return out

    def leg_datagrams(self) -> None:
        import aioswitcher.bridge as br

        got = []
        for data in self._broadcasts(9 if self.everything else 3):
            p = br.DatagramParser(data)
            p.is_switcher_originator()
            p.get_device_type(), p.get_ip_type1(), p.get_mac(), p.get_name(), p.get_device_id(), p.get_device_key(), p.get_device_state()
            br._parse_device_from_datagram(got.append, data)
        for junk in (b"", b"\x01", self.r.randbytes(40)):
            if junk[:2] != b"\xfe\xf0":
                br.DatagramParser(junk).is_switcher_originator()

    # ------------------------------------------------------------------ asynchronous legs
    async def leg_bridge(self) -> None:
        import socket

        import aioswitcher.bridge as br

        def on_device(dev):
            self.delivered += 1
            if self.raise_next:
                self.raise_next = False
                raise RuntimeError("the tour's consumer failed on this device")

        if self.bridge is None:
            b = br.SwitcherBridge(on_device, list(self.bridge_ports))
            await b.start()
            self.bridge = b
        b = self.bridge
        b.is_running
        s = socket.socket(socket.AF_INET, socket.SOCK_DGRAM)
        try:
            for k, data in enumerate(self._broadcasts(2)):
                s.sendto(data, ("127.0.0.1", self.bridge_ports[k % 2]))
        finally:
            s.close()
        if True:
            # what every network carries and the library ignores without a word: empty and foreign datagrams
            s = socket.socket(socket.AF_INET, socket.SOCK_DGRAM)
            try:
                for junk in (b"", b"\x00", self.r.randbytes(self.r.choice([1, 20, 165, 168])), b"M-SEARCH * HTTP/1.1\r\n"):
                    if junk[:2] != b"\xfe\xf0":
                        s.sendto(junk, ("127.0.0.1", self.bridge_ports[0]))
            finally:
                s.close()
        await asyncio.sleep(0)
        if self.n % 3 == 0 or self.everything:
            # a bridge that was never started is stopped (harmless, says the library), another one cannot start (its port is taken)
            await br.SwitcherBridge(on_device, [self.bridge_ports[0] + 2]).stop()
            taken = socket.socket(socket.AF_INET, socket.SOCK_DGRAM)
            try:
                taken.bind(("0.0.0.0", self.bridge_ports[0] + 3))
                try:
                    await br.SwitcherBridge(on_device, [self.bridge_ports[0] + 3]).start()
                except OSError:
                    pass
            finally:
                taken.close()
        if (self.n % 5 == 0 or self.everything) and not self.stopping:
            # a full life cycle now and then
            await b.stop()
            self.bridge = None

    async def _client(self, t: int):
        import aioswitcher.api as api_mod

        from .fakes import tcp_device as td

        if self.dev is None:
            self.dev = td.FakeDevice(f"127.9.{self.shard % 250 + 1}.9")
            self.dev.responder = td.auto_responder(family=lambda conn: self.family)
            await self.dev.start()
        api = self.clients.get(t)
        if api is None or not api.connected:
            cls = api_mod.SwitcherType1Api if t == 1 else api_mod.SwitcherType2Api
            api = cls(self.dev.ip, f"{0xEE0000 + self.shard:06x}", "18")
            await _bounded(api.connect(), 20)
            self.clients[t] = api
        return api

    family = "thermostat"

    async def leg_api1(self) -> None:
        from . import ops

        api = await self._client(1)
        r = self.r
        all_ops = ["get_state", "turn_on", "turn_off", "turn_on_timer", "set_auto_shutdown", "set_device_name", "get_schedules", "create_schedule", "delete_schedule"]
        for op in (all_ops if self.everything else [r.choice(all_ops)]):
            await _bounded(ops.call(api, op, ops.gen_args(op, r, {}, hostile=False), None), 20)
        if self.n % 7 == 0 and not self.stopping:
            await api.disconnect()

    async def leg_api2(self) -> None:
        from . import ops

        api = await self._client(2)
        r = self.r
        all_ops = ["stop", "set_position", "get_shutter_state", "get_breeze_state", "control_breeze"]
        if self.everything:
            self.everything = False
            try:
                for _ in range(2):
                    for op in all_ops:
                        self._forced_op = op
                        await self.leg_api2()
            finally:
                self.everything, self._forced_op = True, None
            return
        op = getattr(self, "_forced_op", None) or r.choice(all_ops)
        self.family = "shutter" if op in ("stop", "set_position", "get_shutter_state") else "thermostat"
        remote = None
        a = ops.gen_args(op, r, {}, hostile=False)
        if op == "control_breeze":
            if self.remote is None:
                self.leg_remotes()
            remote = self.remote
            import aioswitcher.device as dv

            mode = r.choice(list(remote.supported_modes) or list(dv.ThermostatMode))
            try:
                await _bounded(api.control_breeze_device(remote, dv.DeviceState.ON, mode, self._temperature(r, remote),
                                                                 r.choice(list(dv.ThermostatFanLevel)), r.choice(list(dv.ThermostatSwing))), 20)
            except (RuntimeError, KeyError):
                pass
        else:
            await _bounded(ops.call(api, op, a, remote), 20)
        if self.n % 11 == 0 and not self.stopping:
            await api.disconnect()

    async def leg_rejected(self) -> None:
        """Calls the library refuses: the caller gets an exception, nothing is logged or warned about."""
        import aioswitcher.schedule as sch
        import aioswitcher.schedule.tools as st
        import aioswitcher.device.tools as t

        r = self.r
        for f in (lambda: st.weekdays_to_hexadecimal([sch.Days.MONDAY, sch.Days.MONDAY]),
                  lambda: st.weekdays_to_hexadecimal([r.choice(list(sch.Days))] * 2 + [r.choice(list(sch.Days))]),
                  lambda: st.weekdays_to_hexadecimal(set()),
                  lambda: st.bit_summary_to_days(r.choice([0, 1, 255, 256])),
                  lambda: st.time_to_hexadecimal_timestamp(r.choice(["25:00", "2100", "12:60", ""])),
                  lambda: t.string_to_hexadecimale_device_name(r.choice(["x", "", "y" * 33])),
                  lambda: t.timedelta_to_hexadecimal_seconds(timedelta(minutes=r.choice([0, 59, 1440, 9999]))),
                  lambda: t.sign_packet_with_crc_key(r.choice(["xyz", "abc", "fef0 "])),
                  lambda: t.seconds_to_iso_time(r.choice([-1, 86400, 10 ** 6]))):
            try:
                f()
            except Exception:
                pass
        api = await self._client(1)
        for kw in ({"start": "25:00", "end": "07:00", "days": ["MONDAY"]}, {"start": "21:00", "end": "2200", "days": []},
                   {"start": "06:00", "end": "07:00", "days": ["SUNDAY", "SUNDAY"], "days_form": "list"}):
            try:
                from . import ops

                await _bounded(ops.call(api, "create_schedule", kw, None), 20)
            except Exception:
                pass
        for op, a in (("set_device_name", {"name": "z"}), ("set_auto_shutdown", {"seconds": 60}), ("turn_on_timer", {"minutes": 2 ** 33})):
            try:
                from . import ops

                await _bounded(ops.call(api, op, a, None), 20)
            except Exception:
                pass

    async def leg_refused(self) -> None:
        """A host that has only the other protocol's control port open: connecting is refused, and that is all."""
        import aioswitcher.api as api_mod

        from .fakes import tcp_device as td

        if self.half is None:
            self.half = (td.FakeDevice(f"127.9.{self.shard % 250 + 1}.10", ports=(td.PORT_T2,)), td.FakeDevice(f"127.9.{self.shard % 250 + 1}.11", ports=(td.PORT_T1,)))
            for d in self.half:
                await d.start()
        for cls, d in ((api_mod.SwitcherType1Api, self.half[0]), (api_mod.SwitcherType2Api, self.half[1])):
            api = cls(d.ip, "ee00aa", "00")
            try:
                await _bounded(api.connect(), 20)
            except Exception:
                pass
            try:
                await _bounded(api.disconnect(), 10)
            except Exception:
                pass

    async def leg_noisy(self) -> None:
        """What the bridge survives loudly: a broadcast with a name in a legacy code page (undecodable as UTF-8) and a consumer that
        raises.  asyncio reports both through the loop's exception handler; the checks that read that channel themselves (the UDP
        ones) leave this leg out."""
        import logging
        import socket

        if not self.noisy:
            return
        if self.bridge is None:
            import aioswitcher.bridge as br

            def on_device(dev):
                self.delivered += 1
                if self.raise_next:
                    self.raise_next = False
                    raise RuntimeError("the tour's consumer failed on this device")

            b = br.SwitcherBridge(on_device, list(self.bridge_ports))
            await b.start()
            self.bridge = b
        from .ref import broadcast as rb

        logging.getLogger("asyncio").setLevel(logging.CRITICAL + 1)    # (the reports would only fill the worker's log)
        d = gen.broadcast_desc(self.r, self.r.choice(["V4", "TOUCH", "POWER_PLUG", "RUNNER"]), self.r.randrange(10 ** 6), "ee00cc")
        d["name"] = "legacy"
        data = bytearray(rb.encode(d))
        legacy = "\u05d3\u05d5\u05d3 \u05e9\u05de\u05e9".encode("cp1255")
        data[42:42 + len(legacy)] = legacy
        self.raise_next = True
        s = socket.socket(socket.AF_INET, socket.SOCK_DGRAM)
        try:
            s.sendto(bytes(data), ("127.0.0.1", self.bridge_ports[0]))
            for b in self._broadcasts(1):
                s.sendto(b, ("127.0.0.1", self.bridge_ports[1]))
        finally:
            s.close()
        for _ in range(3):
            await asyncio.sleep(0)

    async def leg_reset(self) -> None:
        """A device that resets the connection (reboot, watchdog): the operation under way fails, so may the disconnect."""
        import aioswitcher.api as api_mod

        await self._client(1)      # (makes sure the private device exists)
        t = 1 + self.n % 2
        cls = api_mod.SwitcherType1Api if t == 1 else api_mod.SwitcherType2Api
        api = cls(self.dev.ip, "ee00bb", "00")
        before = len(self.dev.conns)
        await _bounded(api.connect(), 20)
        for _ in range(200):
            if len(self.dev.conns) > before:
                break
            await asyncio.sleep(0)
        if len(self.dev.conns) > before:
            conn = self.dev.conns[-1]
            conn.closed = True
            conn.writer.transport.abort()
        for _ in range(3):
            await asyncio.sleep(0)
        try:
            await _bounded(api.get_state() if t == 1 else api.get_shutter_state(), 20)
        except Exception:
            pass
        try:
            await _bounded(api.disconnect(), 10)
        except Exception:
            pass
        del self.dev.conns[before:]

    # ------------------------------------------------------------------ background
    def start_background(self, period: float = 0.004) -> None:
        async def loop():
            while not self.stopping:
                await self.next_leg()
                self.acc.count("tour_legs_run_while_the_check_was_running")
                # real time, a few milliseconds: the check's own awaits interleave with the legs' awaits
                await asyncio.sleep(period)

        self.task = asyncio.ensure_future(loop())

    async def close(self) -> None:
        self.stopping = True
        if self.task is not None:
            # let the leg that is under way finish (cancelling an operation half-way would leave its client in a state of my making)
            t0 = env.REAL_MONOTONIC()
            while not self.task.done() and env.REAL_MONOTONIC() - t0 < 30:
                await asyncio.wait({self.task}, timeout=0.05)
            if not self.task.done():
                self.task.cancel()
            try:
                await self.task
            except BaseException:
                pass
        for api in self.clients.values():
            try:
                await _bounded(api.disconnect(), 10)
            except BaseException:
                pass
        if self.bridge is not None:
            try:
                await _bounded(self.bridge.stop(), 10)
            except BaseException:
                pass
        for d in ([self.dev] if self.dev is not None else []) + list(self.half or ()):
            try:
                await d.stop()
            except BaseException:
                pass
        if self.tmp is not None:
            shutil.rmtree(self.tmp, ignore_errors=True)


def touch(value) -> None:
    """The same value passes through the library's other small functions first (an application formats, encodes and logs one
    value in several ways); whatever they say about it is ignored here."""
    try:
        import aioswitcher.device.tools as t
        import aioswitcher.schedule.tools as st
    except Exception:
        return
    if isinstance(value, str):
        fs = (t.string_to_hexadecimale_device_name, st.time_to_hexadecimal_timestamp, lambda v: st.calc_duration(v, v),
              lambda v: st.pretty_next_run(v), t.sign_packet_with_crc_key, t.set_message_length,
              lambda v: st.hexadecimale_timestamp_to_localtime(v.encode()))
    elif isinstance(value, int) and not isinstance(value, bool):
        fs = (t.seconds_to_iso_time, t.watts_to_amps, t.minutes_to_hexadecimal_seconds, st.bit_summary_to_days,
              lambda v: t.timedelta_to_hexadecimal_seconds(timedelta(seconds=v)))
    else:
        return
    for f in fs:
        try:
            f(value)
        except Exception:
            pass


def hear_breeze(remote_id: str, r=None) -> None:
    """A thermostat that uses this remote broadcasts its status and the library parses it (the application runs a bridge too)."""
    try:
        import aioswitcher.bridge as br

        from .ref import broadcast as rb

        r = r or random.Random(len(remote_id))
        d = gen.broadcast_desc(r, "BREEZE", r.randrange(10 ** 6), "ee00dd")
        d["name"] = "tour breeze"
        d.pop("state_code", None)
        if not (isinstance(remote_id, str) and remote_id.isascii() and 1 <= len(remote_id) <= 8):
            return
        d["remote_id"] = remote_id.ljust(8, "\0") if len(remote_id) < 8 else remote_id
        br._parse_device_from_datagram(lambda dev: None, rb.encode(d))
    except Exception:
        pass
