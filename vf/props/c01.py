"""C01 - every frame written to a device is self-consistent and correctly signed.

Wire monitor: a spy on the connected API object's StreamWriter.write records the
exact byte strings the client writes; a real TCP peer (fake device) receives
them.  Every write is judged by the operation-agnostic frame check of the
reference (magic, length field, terminator, signature) and the written stream
must equal the received stream.  In-situ contracts on the signer, the
length setter and the IR command object run at the same time.
"""

from .. import env, gen, ops, tcpwork
from ..fakes import tcp_device as td
from ..monitors import insitu
from ..prop import Prop
from ..ref import clock, frames
from ..selftest import crc_and_frames

ALL_OPS = ops.T1_OPS + ops.T2_OPS


def classify_problem(kind: str, frame: bytes, problem: str, rec) -> str:
    what = problem.split(" ")[0]  # magic / length / bytes / signature / frame
    what = {"bytes": "terminator", "frame": "short"}.get(what, what)
    extra = ""
    if kind == "set_name" and rec is not None and not rec.args.get("name", "").isascii():
        extra = ":non-ascii-name"
    if kind in ("breeze_command", "breeze_update", "stop", "set_position", "unknown") and what == "length":
        payload = len(frame) - 87
        if kind == "breeze_command" and int.from_bytes(frame[81:83], "little") != payload:
            extra = ":ir-length-field"
        elif len(frame) > 255:
            extra = ":frame>255"
        else:
            extra = ":frame<=255"
    return f"{what}:{kind}{extra}"


class C01(Prop):
    id = "C01"
    level = "exploration"
    technique = "wire monitor (write spy + real TCP peer) with an operation-agnostic frame oracle and in-situ icontract postconditions"
    rule = ("case = one connection (random device id/key, fresh session id per login, frozen virtual time anywhere in [0,2^32)) running "
            "6..10 random operations of the matching API with hostile arguments (names in 5 scripts, IR code texts of 3..2000 bytes, "
            "timers, positions, day sets, clock times); every write is judged; distinct = (frame kind, frame length, argument class); "
            "non-trivial = frames that carry caller arguments or a run-time computed length (everything except bare login/state queries)")
    level_text = ("Held-on-observed over tens of thousands of frames of all 16 operation shapes of both APIs; each frame is checked "
                  "byte-exactly for magic, little-endian length, terminator and double-CRC signature, and the stream the device "
                  "received must equal what was written.")
    level_note = "trusts vf/ref (crc + frame check), the Linux loopback stack, time_machine; rejected arguments legitimately write only the login frame"
    assumptions = ["the device answers every login with a reply carrying a session id; 30% of the operations then get one faulty reply "
                   "(end of stream, garbage, a single zero byte) at a later step: frames written on error / retry paths are judged like any other"]
    anchors = ["aioswitcher.api:SwitcherApi._login", "aioswitcher.device.tools:set_message_length",
               "aioswitcher.device.tools:sign_packet_with_crc_key", "aioswitcher.api.remotes:SwitcherBreezeCommand.__init__",
               "aioswitcher.api:SwitcherType2Api._control_breeze_swing_device", "aioswitcher.api:SwitcherType1Api.create_schedule"]
    min_evaluations = {"quick": 30_000, "thorough": 300_000}
    budget_s = {"quick": 300, "thorough": 900}

    def selftest(self):
        crc_and_frames()

    async def setup(self, ctx):
        self.recs = insitu.attach_all()
        self.rig = tcpwork.Rig(ctx["shard"])
        self.dev = await self.rig.device()
        clock.set_zone("UTC")
        # the same process also listens for broadcasts, as a real integration does: TCP control and the UDP bridge share one event loop
        from ..fakes import udp as _udp
        from aioswitcher.bridge import SwitcherBridge

        self.urig = _udp.UdpRig(ctx["shard"])
        self.uport = self.urig.free_ports(1)[0]
        self.heard = []
        self.bridge = SwitcherBridge(self.heard.append, [self.uport])
        await self.bridge.start()

    async def teardown(self, ctx):
        await self.bridge.stop()
        self.urig.sender.close()
        await self.rig.close()

    def cases(self, tier, seed, shard, nshards):
        yield {"crc_targets": True, "shard": shard}
        n = {"quick": 9600, "thorough": 160_000}[tier]
        for i in range(shard, n, nshards):
            yield {"i": i, "seed": seed}

    def _crc_targets(self, case, acc):
        """Frames whose CRC lands on the values an off-by-one in a table or a sign error would trip over (0000, ffff, 00ff, ...):
        a session id is searched for that gives the unsigned frame that CRC, then the library signs it."""
        import aioswitcher.device.tools as tools

        from ..props.c04 import FRAME_KINDS
        from ..ref import crc as _crc
        from ..selftest import DEV, KEY, TS

        targets = [0xFFFF, 0x0000, 0x00FF, 0xFF00, 0xFFFE, 0x0001, 0x8000, 0x7FFF, 0xFEF0, 0xF0FE, 0x3030, 0x0A0A, 0x1021, 0x2110, 0x1D0F, 0x0F1D, 0x0100, 0x00FE,
                   0x0080, 0x007F, 0x1000, 0x0010]
        for kind_no in (case["shard"] % len(FRAME_KINDS), (case["shard"] + 5) % len(FRAME_KINDS)):
          k, a = FRAME_KINDS[kind_no]
          base = bytearray(frames.build(k, bytes(4), TS, DEV, KEY, a)[:-4])
          by_crc = {}
          for s in range(65536):
              base[8:10] = s.to_bytes(2, "big")
              by_crc.setdefault(_crc.crc16_fast(bytes(base)), bytes(base))
          for target in targets:
            found = by_crc.get(target)
            acc.ev()
            if found is None:
                acc.count("crc_targets_not_reachable_with_two_session_bytes")
                continue
            acc.count("frames_signed_whose_crc_is_a_boundary_value")
            want = found + _crc.sign(found)
            try:
                got = bytes.fromhex(tools.sign_packet_with_crc_key(found.hex()))
            except Exception as exc:
                acc.violation(f"signature:{k}", f"signing a {k} frame whose CRC-16 is {target:04x} raised {type(exc).__name__}: {exc}", {"frame": found.hex()})
                continue
            for name, rc in self.recs.items():
                rc.drain()
            if got != want:
                acc.violation(f"signature:{k}", f"a {k} frame whose CRC-16 is {target:04x}: the library appended {got[len(found):].hex()!r} ({len(got) - len(found)} bytes), "
                              f"the signature is {want[-4:].hex()}", {"frame": found.hex(), "crc": f"{target:04x}"})

    async def run_case(self, case, acc, ctx):
        if case.get("crc_targets"):
            self._crc_targets(case, acc)
            return
        r = env.rng("C01", case["seed"], case["i"])
        t = 1 if r.random() < 0.5 else 2
        dev_id, key = gen.device_id(r), gen.device_key(r)
        zone = r.choice(env.ZONES)
        irset = gen.irset(r)
        remote = tcpwork.make_remote(irset)
        reported = {"temp_tenths": r.randrange(0, 400), "state": r.choice(["ON", "OFF"]), "mode": r.choice(["AUTO", "DRY", "FAN", "COOL", "HEAT"]),
                    "target": r.randrange(16, 31), "fan": r.choice(["AUTO", "LOW", "MEDIUM", "HIGH"]), "swing": r.choice(["ON", "OFF"]),
                    "remote_id": irset["IRSetID"]}
        family = r.choice(["thermostat", "shutter"])
        healthy = td.auto_responder(thermostat=reported, family=family, rnd=r)
        inject = {"base": 0, "step": None, "action": None}
        odd_logins = r.random() < 0.3

        def responder(conn, idx, frame):
            # faults only after the login has been answered with a session id (the statement's precondition)
            if inject["step"] is not None and idx - inject["base"] == inject["step"] and frames.classify(frame) not in ("login", "login2"):
                return inject["action"]
            out = healthy(conn, idx, frame)
            if odd_logins and frames.classify(frame) in ("login", "login2") and isinstance(out, (bytes, bytearray)) and r.random() < 0.5:
                # the login reply still carries the session id at offset 8, but its own header is odd: a length word that says less or
                # more than was sent, or a second message of the device's in the same segment
                b = bytearray(out)
                x = r.random()
                if x < 0.6:
                    b[2:4] = r.choice([1, 2, 4, 8, 9, 10, 11, 12, 13, 40, 82, 84, 0, 255, 256, 65535, r.randrange(65536)]).to_bytes(2, "little")
                if x > 0.4:
                    b += bytes.fromhex("fef0") + r.randbytes(r.randrange(2, 60))
                acc.count("login_replies_with_odd_header")
                return bytes(b)
            return out

        self.dev.responder = responder
        now = gen.epoch(r)
        clock.set_zone(zone)
        nops = r.randrange(6, 11)
        from ..ref import broadcast as _rb

        for model in (r.choice(gen.MODELS), r.choice(gen.MODELS)):
            self.urig.send(self.uport, _rb.encode(gen.broadcast_desc(r, model, r.randrange(10 ** 6), f"{r.randrange(1, 0xEFFFFF):06x}")))
        self.urig.send(self.uport, r.randbytes(r.randrange(0, 200)))
        with clock.virtual_time(now) as traveller:
            conns_before = len(self.dev.conns)
            cl = await self.rig.connect(self.dev, t, dev_id, key)
            try:
                pool = ops.T1_OPS if t == 1 else (["control_breeze"] * 4 + ops.T2_OPS)
                for _ in range(nops):
                    op = r.choice(pool)
                    world = {"zone": zone, "now": now, "reported": reported, "irset": irset}
                    args = ops.gen_args(op, r, world, hostile=True)
                    if r.random() < 0.08:
                        # values far outside the documented range that the client still accepts and writes
                        wild = r.choice([255, 256, 4095, 4096, 65535, 65536, 1 << 20, 70000, 300])
                        if op == "set_position":
                            args = {"position": wild}
                        elif op == "control_breeze":
                            args = dict(args, target=wild)
                        acc.count("ops_with_wild_values")
                    dead = False
                    if r.random() < 0.3:
                        x = r.random()
                        inject.update(base=len(cl.conn.frames), step=r.randrange(1, 4),
                                      action=td.EOF if x < 0.5 else (r.randbytes(r.randrange(1, 200)) if x < 0.8 else b"\x00"))
                        acc.count("ops_with_a_faulty_reply_after_login")
                    rec = await cl.run(op, args, remote)
                    inject["step"] = None
                    dead = cl.conn.half_closed
                    acc.count(f"op_{op}")
                    acc.count("op_raised" if rec.outcome == "raise" else "op_returned")
                    for w in rec.writes:
                        acc.ev()
                        kind = frames.classify(w)
                        acc.count(f"frame_{kind}")
                        problems = frames.generic_check(w)
                        for pb in problems:
                            acc.violation(classify_problem(kind, w, pb, rec), f"{op}{args if len(str(args)) < 200 else '{..}'} wrote a {kind} frame: {pb}",
                                          {"op": op, "args": args if len(str(args)) < 400 else str(args)[:400], "frame": w.hex()[:600], "problem": pb})
                        if kind not in ("login", "login2", "get_state", "get_state2"):
                            acc.sig(env.sig(kind, len(w), self._argclass(op, args)))
                        if len(w) % 1 or not isinstance(w, bytes):
                            acc.violation("not-bytes", "non-bytes object written", {"type": type(w).__name__})
                    for name, rc in self.recs.items():
                        for mech, detail in rc.drain():
                            if name not in ("sign", "set_length"):
                                continue  # judged by C12 / C15 / C16, not part of C01's statement
                            acc.violation(f"contract:{name}:{mech}", f"in-situ contract on {name} failed during {op}", {"op": op, "detail": detail})
                    now = min(now + r.randrange(1, 5000), 2 ** 32 - 2)
                    traveller.move_to(float(now))
                    if dead:
                        break   # the stream is at end-of-file: later logins get no session id, nothing more to judge here
                # conservation: the device received exactly the written stream
                written = b"".join(cl.spy.writes)
                ok = await td.settle(cl.conn, len(written))
                if not ok or bytes(cl.conn.raw) != written:
                    acc.violation("conservation", "bytes received by the device differ from the bytes written",
                                  {"written": len(written), "received": len(cl.conn.raw)})
                for other in self.dev.conns[conns_before:]:
                    if other is cl.conn:
                        continue
                    # a client that quietly opened another connection: what it wrote there is judged like everything else
                    acc.count("connections_opened_by_the_client_on_its_own")
                    for w in other.frames:
                        acc.ev()
                        for problem in frames.generic_check(w):
                            what = "length" if "length field" in problem else ("signature" if "signature" in problem else "framing")
                            acc.violation(f"{what}:{frames.classify(w)}:on-a-second-connection", f"frame written on a connection the client opened on its own: {problem}",
                                          {"frame": w.hex()[:200]})
                acc.count("frames_received_by_device", len(cl.conn.frames))
                acc.count("frames_written", len(cl.spy.writes))
                if len(cl.conn.frames) != len(cl.spy.writes):
                    acc.count("tcp_segmentation_differs_from_writes")
            finally:
                await cl.close()
        if case["i"] % 400 == 3 and cl.spy.writes:
            w = cl.spy.writes[-1]
            acc.sample({"api_type": t, "device_id": dev_id, "key": key, "virtual_now": now, "zone": zone,
                        "last_frame_kind": frames.classify(w), "last_frame": w.hex()[:160], "frames_in_case": len(cl.spy.writes)})

    @staticmethod
    def _argclass(op, args):
        if op == "set_device_name":
            n = args["name"]
            return ("name", n.isascii(), len(n.encode()))
        if op == "control_breeze":
            return ("breeze", tuple(sorted(k for k in args)))
        if op == "create_schedule":
            return ("sched", len(args["days"]))
        if op == "turn_on_timer":
            return ("timer", args["minutes"].bit_length())
        return (op,)

    def finish(self, acc, ctx):
        acc.count("broadcasts_heard_by_the_bridge_in_the_same_loop", len(self.heard))
        for name, rc in self.recs.items():
            acc.count(f"contract_evaluations_{name}", rc.evaluations)
        if __debug__ and self.recs["sign"].evaluations == 0:
            acc.inconclusive_because("in-situ signer contract never evaluated")


    def thread_pairs(self, ctx):
        from ..monitors.threadops import api_pair

        clock.set_zone("UTC")
        a = {"type": 1, "id": "a1b2c3", "key": "18", "op": "turn_on_timer", "args": {"minutes": 90}}
        b = {"type": 2, "id": "d4e5f6", "key": "27", "op": "set_position", "args": {"position": 57}, "family": "shutter"}
        c = {"type": 1, "id": "0a0b0c", "key": "03", "op": "set_device_name", "args": {"name": "Boiler upstairs"}}
        return [api_pair("control_device (one thread) || set_position (another thread)", a, b),
                api_pair("set_device_name || control_device", c, a)]


PROP = C01()
