"""C14 - a schedule's duration is (end - start) modulo 24 hours (exhaustive: 1440 x 1440)."""

from .. import env
from ..monitors import contracts
from ..prop import Prop


def hhmm(m: int) -> str:
    return f"{m // 60:02d}:{m % 60:02d}"


def want(s: int, e: int) -> str:
    d = (e - s) % 1440
    return f"{d // 60}:{d % 60:02d}:00"


def _post(rec):
    def duration_is_difference_mod_24h(start_time, end_time, result):
        rec.evaluations += 1
        try:
            s = int(start_time[0:2]) * 60 + int(start_time[3:5])
            e = int(end_time[0:2]) * 60 + int(end_time[3:5])
            if result != want(s, e):
                rec.fail("wrong-duration", {"start": start_time, "end": end_time, "got": result, "want": want(s, e)})
        except Exception as exc:
            rec.fail("monitor-error", repr(exc))
        return True

    return duration_is_difference_mod_24h


def attach():
    return contracts.attach_post("aioswitcher.schedule.tools:calc_duration", _post)


class C14(Prop):
    id = "C14"
    level = "exploration"
    technique = "exhaustive enumeration of all 1440x1440 pairs through the real calc_duration under a runtime contract"
    rule = ("all 1440 x 1440 (start, end) HH:MM pairs, each start minute one batch, disjoint over shards; every pair is "
            "distinct by construction; non-trivial = all (each compared with (e-s) mod 1440 rendered H:MM:SS); per start "
            "8 pairs are additionally observed through SwitcherSchedule.duration")
    level_text = ("Complete enumeration of the statement's input space (2,073,600 pairs) on every run, in both tiers; "
                  "each result of the real function is compared with integer arithmetic.")
    level_note = "trusts integer arithmetic in vf/props/c14.py; canonical zero-padded HH:MM inputs only"
    assumptions = ["inputs are canonical zero-padded HH:MM strings"]
    anchors = ["aioswitcher.schedule.tools:calc_duration", "aioswitcher.schedule.parser:SwitcherSchedule.__post_init__"]
    min_evaluations = {"quick": 2_000_000, "thorough": 2_000_000}
    exhaustive = {"quick": True, "thorough": True}
    budget_s = {"quick": 300, "thorough": 900}

    async def setup(self, ctx):
        self.rec = attach()
        from aioswitcher.schedule import parser, tools

        self.tools, self.parser = tools, parser

    def cases(self, tier, seed, shard, nshards):
        for s in range(shard, 1440, nshards):
            yield {"start": s, "seed": seed}

    def run_case(self, case, acc, ctx):
        s = case["start"]
        ss = hhmm(s)
        calc = self.tools.calc_duration
        ends = [hhmm(e) for e in range(1440)]
        for e in range(1440):
            try:
                r = calc(ss, ends[e])
            except Exception as exc:
                acc.violation("raised", f"calc_duration({ss},{ends[e]}) raised {type(exc).__name__}", {"start": ss, "end": ends[e]})
                continue
            if r != want(s, e):
                acc.violation("wrong-duration", f"calc_duration({ss},{ends[e]}) = {r!r}, want {want(s, e)}",
                              {"start": ss, "end": ends[e], "got": r, "want": want(s, e)})
        acc.ev(1440)
        acc.distinct(1440)
        self.rec.drain()  # same judgement as above; the recorder matters for in-situ use
        r = env.rng("C14", case["seed"], s)
        for e in [s, (s + 1) % 1440, (s - 1) % 1440] + [r.randrange(1440) for _ in range(5)]:
            sch = self.parser.SwitcherSchedule("0", False, set(), ss, hhmm(e))
            acc.count("observed_via_schedule_object")
            if sch.duration != want(s, e):
                acc.violation("wrong-duration-in-schedule", f"SwitcherSchedule({ss},{hhmm(e)}).duration = {sch.duration!r}",
                              {"start": ss, "end": hhmm(e), "got": sch.duration, "want": want(s, e)})
        self.rec.drain()
        if s % 240 == 7:
            acc.sample({"start": ss, "end": hhmm((s + 1439) % 1440), "observed": calc(ss, hhmm((s + 1439) % 1440))})

    def finish(self, acc, ctx):
        acc.count("contract_evaluations", self.rec.evaluations)


PROP = C14()
