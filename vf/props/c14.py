"""C14 - a schedule's duration is (end - start) modulo 24 hours (exhaustive: 1440 x 1440)."""

from .. import env
from ..monitors import contracts
from ..prop import Prop
from ..ref import clock

DST_ZONES = ["Asia/Jerusalem", "America/New_York", "Australia/Lord_Howe", "Europe/London", "Australia/Sydney",
             "Pacific/Chatham", "America/St_Johns", "America/Los_Angeles"]


def configs():
    """(zone, virtual now) pairs: the real clock in UTC first, then both sides of every 2025-2026 transition day."""
    out = [("UTC", None)]
    for z in DST_ZONES:
        for t in clock.transitions(z, 2025, 2027):
            out.append((z, t - 2 * 3600))
            out.append((z, t + 2 * 3600))
    for z in ("Asia/Kathmandu", "Pacific/Kiritimati", "Pacific/Pago_Pago"):
        out.append((z, 1_767_225_600 - 3600))  # around new year 2026 UTC
    return out


def hhmm(m: int) -> str:
    return f"{m // 60:02d}:{m % 60:02d}"


def want(s: int, e: int) -> str:
    d = (e - s) % 1440
    return f"{d // 60}:{d % 60:02d}:00"


def _post(rec):
    def duration_is_difference_mod_24h(start_time, end_time, result):
        rec.evaluations += 1
        try:
            s = int(start_time[0:2]) * 60 + int(start_time[3:5])
            e = int(end_time[0:2]) * 60 + int(end_time[3:5])
            if result != want(s, e):
                rec.fail("wrong-duration", {"start": start_time, "end": end_time, "got": result, "want": want(s, e)})
        except Exception as exc:
            rec.fail("monitor-error", repr(exc))
        return True

    return duration_is_difference_mod_24h


def attach():
    return contracts.attach_post("aioswitcher.schedule.tools:calc_duration", _post)


class C14(Prop):
    id = "C14"
    tour_every = 5
    level = "exploration"
    technique = "exhaustive enumeration of all 1440x1440 pairs through the real calc_duration under a runtime contract"
    rule = ("all 1440 x 1440 (start, end) HH:MM pairs under the real clock in UTC, each start minute one batch, disjoint over shards; "
            "in addition, under a virtual clock on both sides of every 2025-2026 UTC-offset transition of 8 DST zones (+3 fixed-offset zones) "
            "every start with 36 ends (equal, +-1, +-60, +-120, random) in quick and all 1440 ends for 8 of those configurations in "
            "thorough; every (configuration, pair) is distinct by construction; non-trivial = all (each compared with (e-s) mod 1440 "
            "rendered H:MM:SS); per start 8 pairs are additionally observed through SwitcherSchedule.duration")
    level_text = ("Complete enumeration of the statement's input space (2,073,600 pairs) on every run, in both tiers; "
                  "each result of the real function is compared with integer arithmetic.")
    level_note = "trusts integer arithmetic in vf/props/c14.py; canonical zero-padded HH:MM inputs only"
    assumptions = ["inputs are canonical zero-padded HH:MM strings"]
    anchors = ["aioswitcher.schedule.tools:calc_duration", "aioswitcher.schedule.parser:SwitcherSchedule.__post_init__"]
    min_evaluations = {"quick": 2_000_000, "thorough": 2_000_000}
    exhaustive = {"quick": True, "thorough": True}
    budget_s = {"quick": 300, "thorough": 900}

    async def setup(self, ctx):
        self.rec = attach()
        from aioswitcher.schedule import parser, tools

        self.tools, self.parser = tools, parser
        self.cfgs = configs()

    def cases(self, tier, seed, shard, nshards):
        cfgs = configs()
        # the duration of a pair has nothing to do with where the host is: every zone of the tz database, a handful of pairs each
        import zoneinfo

        zones = sorted(zoneinfo.available_timezones())
        for zi in range(shard, len(zones), nshards):
            yield {"all_zones": zones[zi]}
        for s in range(shard, 1440, nshards):
            yield {"start": s, "seed": seed, "config": 0, "full": True}
        r = env.rng("C14", seed, "cfg")
        full_cfgs = set(r.sample(range(1, len(cfgs)), 8)) if tier == "thorough" else set()
        i = 0
        for c in range(1, len(cfgs)):
            for s in range(1440):
                if tier == "quick" and (s + c) % 3:
                    continue
                if i % nshards == shard:
                    yield {"start": s, "seed": seed, "config": c, "full": c in full_cfgs}
                i += 1

    def run_case(self, case, acc, ctx):
        if case.get("all_zones"):
            zone = case["all_zones"]
            calc = self.tools.calc_duration
            try:
                clock.set_zone(zone)
                pairs = [(0, 60), (0, 1), (1, 0), (2, 3), (0, 0), (1439, 0), (0, 1439), (60, 0), (720, 721), (3, 1), (1, 2), (0, 2), (2, 0), (30, 29), (1380, 60)]
                for s_, e_ in pairs:
                    acc.ev()
                    acc.distinct()
                    try:
                        got = calc(hhmm(s_), hhmm(e_))
                    except Exception as exc:
                        acc.violation("raised", f"calc_duration({hhmm(s_)},{hhmm(e_)}) with host zone {zone} raised {type(exc).__name__}: {exc}", {"zone": zone})
                        continue
                    if got != want(s_, e_):
                        acc.violation("wrong-duration:zone-or-date-dependent", f"calc_duration({hhmm(s_)},{hhmm(e_)}) = {got!r} with host zone {zone}, want {want(s_, e_)}",
                                      {"zone": zone, "start": hhmm(s_), "end": hhmm(e_), "got": got})
                acc.count("zones_of_the_tz_database_visited")
            finally:
                clock.set_zone("UTC")
            self.rec.drain()
            return
        zone, now = self.cfgs[case["config"]]
        if now is None:
            clock.set_zone("UTC")
            self._run(case, acc, zone, now)
        else:
            clock.set_zone(zone)
            with clock.virtual_time(now):
                self._run(case, acc, zone, now)
            acc.count("pairs_under_virtual_zone_and_date", 0)

    def _run(self, case, acc, zone, now):
        s = case["start"]
        ss = hhmm(s)
        calc = self.tools.calc_duration
        ends = [hhmm(e) for e in range(1440)]
        if case["full"]:
            which = range(1440)
        else:
            r0 = env.rng("C14e", case["seed"], s, case["config"])
            which = sorted({s, (s + 1) % 1440, (s - 1) % 1440, (s + 60) % 1440, (s - 60) % 1440, (s + 120) % 1440, (s - 120) % 1440, 0, 1439}
                           | {r0.randrange(1440) for _ in range(27)})
        tagz = "" if now is None else f" [{zone} at {now}]"
        for e in which:
            try:
                r = calc(ss, ends[e])
            except Exception as exc:
                acc.violation("raised", f"calc_duration({ss},{ends[e]}) raised {type(exc).__name__}{tagz}", {"start": ss, "end": ends[e], "zone": zone, "now": now})
                continue
            if r != want(s, e):
                acc.violation("wrong-duration" + ("" if now is None else ":zone-or-date-dependent"), f"calc_duration({ss},{ends[e]}) = {r!r}, want {want(s, e)}{tagz}",
                              {"start": ss, "end": ends[e], "got": r, "want": want(s, e), "zone": zone, "now": now})
        acc.ev(len(which))
        acc.distinct(len(which))
        if now is not None:
            acc.count("pairs_under_virtual_zone_and_date", len(which))
        self.rec.drain()  # same judgement as above; the recorder matters for in-situ use
        r = env.rng("C14", case["seed"], s)
        import dataclasses

        proto = self.parser.SwitcherSchedule("0", False, set(), "13:00", "14:00")
        for e in [s, (s + 7) % 1440]:
            for derived in (dataclasses.replace(proto, start_time=ss, end_time=hhmm(e)), dataclasses.replace(dataclasses.replace(proto, end_time=hhmm(e)), start_time=ss)):
                acc.count("observed_via_dataclasses_replace")
                if derived.duration != want(s, e):
                    acc.violation("wrong-duration-in-derived-schedule", f"dataclasses.replace(..., start_time={ss}, end_time={hhmm(e)}).duration = {derived.duration!r}, want {want(s, e)}",
                                  {"start": ss, "end": hhmm(e), "got": derived.duration})
        # slots listed back to back: each pair starts where the previous one ended (wrapping over midnight or not, at random)
        cur = s
        for _ in range(40):
            nxt = r.randrange(1440) if r.random() < 0.7 else (cur - r.randrange(1, 120)) % 1440
            acc.ev()
            acc.count("chained_pairs")
            try:
                got = calc(hhmm(cur), hhmm(nxt))
            except Exception as exc:
                acc.violation("raised:chained", f"calc_duration({hhmm(cur)},{hhmm(nxt)}) right after a pair ending at {hhmm(cur)} raised {type(exc).__name__}: {exc}", {})
                cur = nxt
                continue
            if got != want(cur, nxt):
                acc.violation("wrong-duration:after-a-pair-ending-where-this-one-starts", f"calc_duration({hhmm(cur)},{hhmm(nxt)}) = {got!r}, want {want(cur, nxt)}, "
                              f"right after a pair that ended at {hhmm(cur)}", {"start": hhmm(cur), "end": hhmm(nxt), "got": got})
            cur = nxt
        # the two documented parameters given by name, in either order, and through functools.partial
        import functools

        for e in [s, (s + 1) % 1440, (s - 1) % 1440, r.randrange(1440), r.randrange(1440)]:
            ee_ = hhmm(e)
            forms = {"keywords": lambda: calc(start_time=ss, end_time=ee_), "keywords-end-first": lambda: calc(end_time=ee_, start_time=ss),
                     "positional-then-keyword": lambda: calc(ss, end_time=ee_), "partial-end-first": lambda: functools.partial(calc, end_time=ee_)(ss),
                     "unpacked-mapping-end-first": lambda: calc(**{"end_time": ee_, "start_time": ss})}
            for form, fn in forms.items():
                acc.ev()
                acc.count("calls_by_keyword")
                try:
                    got = fn()
                except Exception as exc:
                    acc.violation(f"raised:{form}", f"calc_duration called as {form} with start {ss} end {ee_} raised {type(exc).__name__}: {exc}", {"start": ss, "end": ee_})
                    continue
                if got != want(s, e):
                    acc.violation(f"wrong-duration:{form}", f"calc_duration called as {form} with start {ss} end {ee_} = {got!r}, want {want(s, e)}",
                                  {"start": ss, "end": ee_, "got": got, "form": form})
        self.rec.drain()
        for e in [s, (s + 1) % 1440, (s - 1) % 1440] + [r.randrange(1440) for _ in range(5)]:
            sch = self.parser.SwitcherSchedule("0", False, set(), ss, hhmm(e))
            acc.count("observed_via_schedule_object")
            if sch.duration != want(s, e):
                acc.violation("wrong-duration-in-schedule", f"SwitcherSchedule({ss},{hhmm(e)}).duration = {sch.duration!r}",
                              {"start": ss, "end": hhmm(e), "got": sch.duration, "want": want(s, e)})
        # the duration of schedules parsed from a device reply follows from their own start/end HH:MM, whatever seconds the
        # device's timestamps carry
        from ..ref import replies as _rp
        from aioswitcher.api.messages import SwitcherGetSchedulesResponse

        zone_now = zone if now is not None else "UTC"
        base_epoch = int(now if now is not None else 1_760_000_000)
        recs = []
        for k in range(4):
            se = base_epoch - base_epoch % 86400 + s * 60 + r.randrange(60)
            ee = se + r.randrange(0, 86400)
            recs.append((k, se, ee))
        reply = _rp.schedules([_rp.schedule_record(k, 0x54, se, ee) for k, se, ee in recs])
        try:
            parsed = {x.schedule_id: x for x in SwitcherGetSchedulesResponse(reply).schedules}
            for k, se, ee in recs:
                x = parsed.get(str(k))
                if x is None:
                    continue
                acc.count("durations_via_device_reply")
                sm = int(x.start_time[:2]) * 60 + int(x.start_time[3:])
                em = int(x.end_time[:2]) * 60 + int(x.end_time[3:])
                if x.duration != want(sm, em):
                    acc.violation("wrong-duration-in-listed-schedule", f"listed schedule {x.start_time}-{x.end_time} (timestamps {se}, {ee}, zone {zone_now}) "
                                  f"reports duration {x.duration!r}, want {want(sm, em)}", {"start": x.start_time, "end": x.end_time, "se": se, "ee": ee})
        except Exception as exc:
            acc.violation("raised", f"parsing a schedules reply raised {type(exc).__name__}: {exc}", {})
        self.rec.drain()
        if s % 240 == 7 and (now is None or case["config"] % 9 == 1):
            acc.sample({"zone": zone, "virtual_now": now, "start": ss, "end": hhmm((s + 1439) % 1440), "observed": calc(ss, hhmm((s + 1439) % 1440))})

    def finish(self, acc, ctx):
        acc.count("contract_evaluations", self.rec.evaluations)


    def thread_pairs(self, ctx):
        from ..monitors.threadops import expect

        calc = self.tools.calc_duration
        clock.set_zone("UTC")
        return [("calc_duration(13:00,14:00) || calc_duration(22:15,04:30)", lambda: calc("13:00", "14:00"), lambda: calc("22:15", "04:30"),
                 expect(want(780, 840)), expect(want(1335, 270))),
                ("calc_duration(00:00,00:43) || calc_duration(23:59,00:42)", lambda: calc("00:00", "00:43"), lambda: calc("23:59", "00:42"),
                 expect(want(0, 43)), expect(want(1439, 42))),
                ("calc_duration(14:00,13:00) || calc_duration(14:00,13:00)", lambda: calc("14:00", "13:00"), lambda: calc("14:00", "13:00"),
                 expect(want(840, 780)), expect(want(840, 780)))]


PROP = C14()
