"""C16 - thermostat control changes only what was asked.

The fake Breeze reports a scripted current state; the frames the real
control_breeze_device writes are compared byte for byte with the reference
(merged requested-or-reported values, IR code chosen by the reference selection
model, or the status frame in update-only mode).  An empty reply is injected at
each step of each frame-list shape.
"""

import asyncio
from .. import env, gen, ops, tcpwork
from ..fakes import memstream
from ..fakes import tcp_device as td
from ..prop import Prop
from ..ref import broadcast as rb
from ..ref import frames, irsel
from ..selftest import crc_and_frames

MODES, FANS = list(rb.MODES), list(rb.FANS)
SETTINGS = ["state", "mode", "target", "fan", "swing"]


def request_for(subset: int, r):
    a = {}
    if subset & 1:
        a["state"] = r.choice(["ON", "OFF"])
    if subset & 2:
        a["mode"] = r.choice(MODES)
    if subset & 4:
        a["target"] = r.randrange(10, 41) if r.random() < 0.85 else r.randrange(1, 61)
    if subset & 8:
        a["fan"] = r.choice(FANS)
    if subset & 16:
        a["swing"] = r.choice(["ON", "OFF"])
    return a


class C16(Prop):
    id = "C16"
    level = "exploration"
    technique = "wire monitor + reference merge/selection model: byte-for-byte comparison of the thermostat exchange; empty reply injected at every step"
    rule = ("case = one connection to a fake Breeze with a generated IR set (toggle/non-toggle x separate-swing/ordinary, dense or sparse) "
            "running all 32 request subsets (+ update-only variants) against a random reported state (2 x 5 x 16..30 x 4 x 2), then the same "
            "shapes with an empty reply at each step (end of stream over TCP), then a 14-call history on ONE instance over an in-memory stream where single "
            "reads return b'' transiently; distinct = (remote kind, request subset, update flag, reported state, fault step); "
            "non-trivial = requests that omit at least one setting (the omitted ones must come from the device's report) or inject a fault")
    level_text = ("Held-on-observed: for every subset of requested settings the whole exchange (login, state query, main command or status "
                  "frame, optional separate swing command) is compared byte for byte with the reference built from requested-or-reported "
                  "values; every step of every frame-list shape gets an empty reply injected and the call must raise RuntimeError or return unsuccessful.")
    level_note = "trusts vf/ref/frames.py + vf/ref/irsel.py; requests whose IR key is not decided by the statement are skipped and counted"
    assumptions = ["swing digit of the status frame for separate-swing remotes is unspecified",
                   "requests for which none of the candidate keys exists are unspecified"]
    anchors = ["aioswitcher.api:SwitcherType2Api.control_breeze_device", "aioswitcher.api:SwitcherType2Api._control_breeze_swing_device",
               "aioswitcher.api:SwitcherType2Api._get_breeze_state", "aioswitcher.api.remotes:SwitcherBreezeRemote.build_command",
               "aioswitcher.api.remotes:SwitcherBreezeRemote.build_swing_command"]
    min_evaluations = {"quick": 20_000, "thorough": 250_000}
    budget_s = {"quick": 300, "thorough": 900}

    def selftest(self):
        crc_and_frames()

    async def setup(self, ctx):
        self.rig = tcpwork.Rig(ctx["shard"])
        self.dev = await self.rig.device()
        self.dev_b = await self.rig.device()

    async def teardown(self, ctx):
        await self.rig.close()

    def cases(self, tier, seed, shard, nshards):
        n = {"quick": 480, "thorough": 40_000}[tier]
        for i in range(shard, n, nshards):
            yield {"i": i, "seed": seed}

    async def run_case(self, case, acc, ctx):
        i = case["i"]
        r = env.rng("C16", case["seed"], i)
        kind_no = env.sig("remote-kind", i) % 4     # not i mod 4: every worker sees all four kinds of remote
        toggle, special = bool(kind_no & 1), bool(kind_no & 2)
        irset = gen.irset(r, toggle=toggle, special=special, density=r.choice([1.0, 1.0, 0.85, 0.5]), long_codes=(i % 3 == 0))
        remote = tcpwork.make_remote(irset)
        did, key = gen.device_id(r), gen.device_key(r)
        reported = {}
        inject = {}

        def new_report():
            reported.clear()
            reported.update({"temp_tenths": r.randrange(100, 400), "state": r.choice(["ON", "OFF"]), "mode": r.choice(MODES),
                             "target": r.randrange(16, 31), "fan": r.choice(FANS), "swing": r.choice(["ON", "OFF"]),
                             "remote_id": irset["IRSetID"]})

        healthy = td.auto_responder(thermostat=reported, family="thermostat", rnd=r)
        base = {"n": 0}

        def responder(conn, idx, frame):
            if inject.get("step") is not None and idx - base["n"] == inject["step"] and (inject.get("only_conn") is None or conn is inject["only_conn"]):
                return td.EOF
            out = healthy(conn, idx, frame)
            if inject.get("step") is not None and inject.get("glued") and idx - base["n"] == inject["step"] - 1 and isinstance(out, (bytes, bytearray)):
                # the reply before the missing one arrives with a second frame glued to it in the same segment (sent twice, or
                # followed by an unsolicited status frame)
                return bytes(out) + (bytes(out) if inject["glued"] == "twice" else healthy(conn, idx, frame))
            return out

        self.dev.responder = responder
        kind_name = f"{'toggle' if toggle else 'plain'}-{'separate' if special else 'joint'}"
        from ..ref import clock

        clock.set_zone(env.ZONES[i % len(env.ZONES)])
        now = float(r.randrange(1_600_000_000, 1_900_000_000))
        with clock.virtual_time(now):
            ts = int(round(now))
            cl = await self.rig.connect(self.dev, 2, did, key)
            try:
                plans = []
                for subset in range(32):
                    for update in ((False, True) if subset % 3 == 0 or r.random() < 0.3 else (False,)):
                        new_report()
                        a = request_for(subset, r)
                        if update:
                            a["update_state"] = True
                        world = {"reported": dict(reported), "irset": irset}
                        plan = ops.breeze_plan(a, reported, irset)
                        base["n"] = len(cl.conn.frames)
                        inject["step"] = None
                        n_sess = len(cl.conn.sessions)
                        rec = await cl.run("control_breeze", a, remote)
                        acc.ev()
                        acc.count(f"remote_{kind_name}")
                        acc.count(f"plan_{plan[0]}")
                        issued = cl.conn.sessions[n_sess:]
                        self._judge(acc, rec, plan, a, world, did, key, issued, ts, kind_name)
                        if plan[0] == "ok":
                            plans.append((a, dict(reported), plan))
                            if len(a) - int(update) < 5:
                                acc.sig(env.sig(kind_name, subset, update, sorted(reported.items())))
                # two thermostats controlled at the same time by two API objects of one application (asyncio.gather), the devices
                # answering with different lags: each device gets exactly the frames of its own request
                kind_b = (kind_no + 1 + i % 3) % 4
                irset_b = gen.irset(r, toggle=bool(kind_b & 1), special=bool(kind_b & 2), density=1.0, long_codes=False)
                remote_b = tcpwork.make_remote(irset_b)
                did_b, key_b = gen.device_id(r), gen.device_key(r)
                reported_b = {}
                healthy_b = td.auto_responder(thermostat=reported_b, family="thermostat", rnd=r)
                self.dev_b.responder = healthy_b
                cl_b = await self.rig.connect(self.dev_b, 2, did_b, key_b)
                try:
                    for _ in range(6):
                        new_report()
                        reported_b.clear()
                        reported_b.update({"temp_tenths": r.randrange(100, 400), "state": r.choice(["ON", "OFF"]), "mode": r.choice(MODES),
                                           "target": r.randrange(16, 31), "fan": r.choice(FANS), "swing": r.choice(["ON", "OFF"]), "remote_id": irset_b["IRSetID"]})
                        a1, a2 = request_for(r.choice([31, 16, 17, 7, r.randrange(32)]), r), request_for(r.choice([31, 16, 1, r.randrange(32)]), r)
                        lag = {self.dev: r.randrange(0, 5), self.dev_b: r.randrange(0, 5)}

                        def make_gate(dev):
                            async def gate(conn, idx, frame):
                                for _ in range(lag[dev]):
                                    await asyncio.sleep(0)
                            return gate

                        self.dev.gate, self.dev_b.gate = make_gate(self.dev), make_gate(self.dev_b)
                        base["n"] = len(cl.conn.frames)
                        inject["step"] = None
                        n1, n2 = len(cl.conn.sessions), len(cl_b.conn.sessions)
                        w1, w2 = {"reported": dict(reported), "irset": irset}, {"reported": dict(reported_b), "irset": irset_b}
                        p1, p2 = ops.breeze_plan(a1, reported, irset), ops.breeze_plan(a2, reported_b, irset_b)
                        rec1, rec2 = await asyncio.gather(cl.run("control_breeze", a1, remote), cl_b.run("control_breeze", a2, remote_b))
                        self.dev.gate = self.dev_b.gate = None
                        acc.ev(2)
                        acc.count("concurrent_control_calls", 2)
                        kn_b = f"{'toggle' if kind_b & 1 else 'plain'}-{'separate' if kind_b & 2 else 'joint'}"
                        self._judge(acc, rec1, p1, a1, w1, did, key, cl.conn.sessions[n1:], ts, kind_name + " (one of two concurrent calls)")
                        self._judge(acc, rec2, p2, a2, w2, did_b, key_b, cl_b.conn.sessions[n2:], ts, kn_b + " (one of two concurrent calls)")
                        # what each device received is what its own client wrote
                        for c_, rec_ in ((cl, rec1), (cl_b, rec2)):
                            await td.settle(c_.conn, sum(len(w) for w in c_.spy.writes))
                            got_frames = c_.conn.frames[-len(rec_.writes):] if rec_.writes else []
                            if [bytes(f) for f in got_frames] != [bytes(w) for w in rec_.writes]:
                                acc.violation("device-received-foreign-frames", f"two concurrent control calls: device {c_.device.ip} received frames its own client did not write",
                                              {"args": [a1, a2]})
                finally:
                    self.dev.gate = self.dev_b.gate = None
                    await cl_b.close()
                # fault injection: an empty reply at each step of each frame-list shape seen on this remote
                seen_shapes = set()
                for a, rep, plan in plans:
                    shape = tuple(k for k, _ in plan[1])
                    if shape in seen_shapes and r.random() < 0.8:
                        continue
                    seen_shapes.add(shape)
                    for step, glued in [(st_, g_) for st_ in range(len(plan[1]) + 1) for g_ in ((None, "twice", "again") if st_ else (None,))]:
                        if glued and r.random() < 0.5:
                            continue
                        inject["glued"] = glued
                        reported.clear()
                        reported.update(rep)
                        # a fresh connection per fault: after a half-close the stream stays at EOF
                        cl2 = await self.rig.connect(self.dev, 2, did, key)
                        try:
                            base["n"] = 0
                            inject["step"] = step
                            inject["only_conn"] = cl2.conn if r.random() < 0.5 else None      # this connection is dead; the device itself may be well
                            n_conns = len(self.dev.conns)
                            env.idle(r.choice([0, 0, 3, 75, 4000]))      # the connection sat idle for a while before the call
                            rec = await cl2.run("control_breeze", a, remote)
                            await td.settle(cl2.conn, sum(len(w) for w in rec.writes))
                        finally:
                            inject["step"] = None
                            inject["glued"] = None
                            inject["only_conn"] = None
                            await cl2.close()
                        if len(self.dev.conns) > n_conns:
                            acc.violation("reconnected-after-empty-reply", f"{kind_name} {a}: after an empty reply at step {step} the client opened "
                                          f"{len(self.dev.conns) - n_conns} more connection(s) to the device and went on", {"args": a, "step": step})
                        acc.ev()
                        acc.count("eof_injections")
                        if glued:
                            acc.count("eof_injections_after_a_glued_reply")
                        acc.count(f"eof_at_step_{step}")
                        acc.sig(env.sig(kind_name, "eof", shape, step))
                        ok = (rec.outcome == "raise" and type(rec.exc) is RuntimeError) or \
                             (rec.outcome == "return" and hasattr(rec.value, "successful") and rec.value.successful is False)
                        if not ok:
                            what = f"returned successful={getattr(rec.value, 'successful', '?')}" if rec.outcome == "return" else f"raised {type(rec.exc).__name__}: {rec.exc}"
                            mech = "empty-reply-reported-success" if rec.outcome == "return" else f"empty-reply-wrong-exception:{type(rec.exc).__name__}"
                            acc.violation(mech, f"{kind_name} {a} with empty reply at step {step} of {list(shape)}" + (f" (the reply before it had a second frame glued to it: {glued})" if glued else "") + f": {what}",
                                          {"args": a, "step": step, "shape": list(shape)})
                        if step == 0 and len(rec.writes) != 1:
                            acc.violation("frame-after-empty-login", f"{a}: wrote {len(rec.writes)} frames although the login reply was empty", {"args": a})
            finally:
                await cl.close()
            await self._memory_history(acc, r, irset, remote, did, key, kind_name, ts, new_report, reported, healthy)
        if i % 24 == 1 and plans:
            a, rep, plan = plans[-1]
            acc.sample({"remote": kind_name, "ir_set_id": irset["IRSetID"], "keys_in_set": len(irset["IRWaveList"]), "reported": rep,
                        "request": a, "expected_frames": [(k, x.get("key", "")) for k, x in plan[1]]})

    async def _memory_history(self, acc, r, irset, remote, did, key, kind_name, ts, new_report, reported, healthy):
        """One API instance, one in-memory connection, a history of control calls some of which get a *transient*
        empty reply at one step (exactly one read returns b'', later replies are normal again)."""
        import aioswitcher.api as api_mod

        inject = {"base": 0, "step": None}

        def responder(conn, idx, frame):
            if inject["step"] is not None and idx - inject["base"] == inject["step"]:
                return memstream.EMPTY
            return healthy(conn, idx, frame)

        with memstream.Patch(responder) as mp:
            api = api_mod.SwitcherType2Api("192.0.2.1", did, key)
            await api.connect()
            conn = mp.conns[-1]
            trace = []
            x_len = r.random()
            n_calls = 14 if x_len > 0.13 else (130 if x_len > 0.03 else 640)
            from ..ref import irsel as _irsel

            caps_ = _irsel.capabilities(irset)
            walk = [(m_, t_, f_, s_) for m_ in caps_["modes"] for t_ in (range(caps_["min"] or 20, (caps_["max"] or 20) + 1) if m_ in ("COOL", "HEAT") else (22,))
                    for f_ in FANS for s_ in ("ON", "OFF")]
            if len(irset["IRWaveList"]) > 280 and x_len < 0.4:
                n_calls = 640      # a remote rich enough to have hundreds of different codes asked of it
            if not walk and n_calls == 640:
                n_calls = 130      # (a set without a single plain mode key: nothing to walk over)
            early = []         # (reported, request) of the first calls of a very long history: asked again at its end
            if n_calls == 640:
                acc.count("very_long_histories_on_one_remote_object")
            for n in range(n_calls + (60 if n_calls == 640 else 0)):
                new_report()
                a = request_for(r.randrange(32), r)
                if n_calls == 640 and n < n_calls:
                    # a systematic walk over every setting the remote can express: hundreds of different codes through one object
                    m_, t_, f_, s_ = walk[(n * 7) % len(walk)] if len(walk) % 7 else walk[n % len(walk)]
                    a = {"state": "ON", "mode": m_, "target": t_, "fan": f_, "swing": s_}
                if r.random() < 0.25 and n_calls < 640:
                    a["update_state"] = True
                if n_calls == 640:
                    if n < 60:
                        early.append((dict(reported), dict(a)))
                    elif n >= n_calls:
                        rep_, a = early[n - n_calls]
                        reported.clear()
                        reported.update(rep_)
                        a = dict(a)
                world = {"reported": dict(reported), "irset": irset}
                plan = ops.breeze_plan(a, reported, irset)
                nframes = 1 + (len(plan[1]) if plan[0] == "ok" else 0)
                step = r.choice([None, None] + list(range(nframes))) if plan[0] == "ok" and n > 0 else None
                inject["base"], inject["step"] = len(conn.frames), step
                n_sess = len(conn.sessions)
                rec = tcpwork.OpRecord("control_breeze", a)
                try:
                    rec.value = await ops.call(api, "control_breeze", a, remote)
                    rec.outcome = "return"
                except Exception as exc:
                    rec.outcome, rec.exc = "raise", exc
                rec.writes = conn.frames[inject["base"]:]
                inject["step"] = None
                acc.ev()
                acc.count("memory_history_calls")
                trace.append((a, step, rec.outcome))
                if step is None:
                    self._judge(acc, rec, plan, a, world, did, key, conn.sessions[n_sess:], ts, kind_name + " (in-memory history)")
                    continue
                acc.count("transient_empty_injections")
                acc.sig(env.sig(kind_name, "transient", tuple(k for k, _ in plan[1]), step, n > 1))
                ok = (rec.outcome == "raise" and type(rec.exc) is RuntimeError) or \
                     (rec.outcome == "return" and getattr(rec.value, "successful", None) is False)
                if not ok:
                    what = f"returned successful={getattr(rec.value, 'successful', '?')}" if rec.outcome == "return" else f"raised {type(rec.exc).__name__}: {rec.exc}"
                    mech = "empty-reply-reported-success:after-earlier-calls" if rec.outcome == "return" else f"empty-reply-wrong-exception:{type(rec.exc).__name__}"
                    acc.violation(mech, f"{kind_name}: call #{n + 1} on one instance, request {a}, one empty reply at step {step} of "
                                  f"{[k for k, _ in plan[1]]}: {what}", {"args": a, "step": step, "history": [str(t) for t in trace]})
            await api.disconnect()

    def _judge(self, acc, rec, plan, a, world, did, key, issued, ts, kind_name):
        tag = f"{kind_name} remote, reported {world['reported']}, request {a}"
        db, kb = bytes.fromhex(did), bytes.fromhex(key)
        if plan[0] == "unspecified":
            acc.skip_unspecified()
            return
        if len(issued) != 1:
            acc.violation("login-count", f"{tag}: {len(issued)} logins", {"args": a})
            return
        sess = issued[0]
        cmds = rec.writes[1:]
        if plan[0] == "raise_after":
            if not (rec.outcome == "raise" and type(rec.exc) is RuntimeError):
                acc.violation("nothing-actionable-not-runtimeerror", f"{tag}: outcome {rec.outcome} {type(rec.exc).__name__ if rec.exc else rec.value}",
                              {"args": a})
            if len(rec.writes) != 1:
                acc.violation("nothing-actionable-wrote-frames", f"{tag}: wrote {len(rec.writes)} frames, want exactly the login frame",
                              {"args": a, "kinds": [frames.classify(w) for w in rec.writes]})
            return
        want_frames = plan[1]
        if rec.outcome == "raise":
            acc.violation(f"valid-request-raised:{type(rec.exc).__name__}", f"{tag}: raised {type(rec.exc).__name__}: {rec.exc}", {"args": a, "exc": repr(rec.exc)})
            return
        if not getattr(rec.value, "successful", False):
            acc.violation("healthy-exchange-unsuccessful", f"{tag}: returned unsuccessful although every reply was non-empty", {"args": a})
        got_kinds = [frames.classify(w) for w in cmds]
        want_kinds = [k for k, _ in want_frames]
        if got_kinds != want_kinds:
            mech = "frame-list-wrong"
            if got_kinds.count("breeze_command") > want_kinds.count("breeze_command"):
                mech = "extra-command-sent"
            elif got_kinds.count("breeze_command") < want_kinds.count("breeze_command"):
                mech = "command-missing"
            acc.violation(mech, f"{tag}: command frames {got_kinds}, want {want_kinds}", {"args": a, "got": got_kinds, "want": want_kinds})
            return
        for g, (k, fa) in zip(cmds, want_frames):
            w = frames.build(k, sess, ts, db, kb, fa)
            if fa.get("swing_unspecified"):
                gm, wm = bytearray(g[:-4]), bytearray(w[:-4])
                if len(gm) == len(wm) and len(gm) > 89:
                    gm[89] &= 0xF0
                    wm[89] &= 0xF0
                same = gm == wm and not frames.generic_check(g)
            else:
                same = g == w
            if not same:
                d = frames.diff(g, w)
                mech = f"frame-differs:{k}"
                if k == "breeze_command":
                    gp, wp = g[83:-4], w[83:-4]
                    if gp != wp:
                        gk = self._key_of(world["irset"], gp)
                        mech = f"wrong-ir-code:{'unknown' if gk is None else 'other-key'}"
                        d = [f"IR payload is the code of key {gk!r}, want key {fa['key']!r}"] + d
                    elif g[81:83] != w[81:83]:
                        mech = "ir-length-field-wrong"
                elif k == "breeze_update":
                    names = {86: "state", 87: "mode", 88: "target", 89: "fan/swing"}
                    for pos, nm in names.items():
                        if len(g) > pos and g[pos] != w[pos]:
                            mech = f"status-frame-{nm}-wrong"
                            break
                acc.violation(mech, f"{tag}: {'; '.join(d[:3])}", {"args": a, "reported": world["reported"], "got": g.hex()[:400], "want": w.hex()[:400]})

    @staticmethod
    def _key_of(irset, payload: bytes):
        for w in irset["IRWaveList"]:
            if bytes(4) + (w["Para"] + "|" + w["HexCode"]).encode() == payload:
                return w["Key"]
        return None


    def thread_pairs(self, ctx):
        from ..monitors.threadops import api_pair
        from ..ref import clock

        clock.set_zone("UTC")
        r = env.rng("C16", "threads")
        irs = gen.irset(r, toggle=False, special=True, density=1.0, long_codes=False)
        remote = tcpwork.make_remote(irs)
        rep = {"temp_tenths": 250, "state": "ON", "mode": "COOL", "target": 22, "fan": "LOW", "swing": "OFF", "remote_id": irs["IRSetID"]}
        caps_modes = [m for m in ("COOL", "HEAT", "AUTO", "DRY", "FAN") if any(w["Key"].startswith({"COOL": "ar", "HEAT": "ah", "AUTO": "aa", "DRY": "ad", "FAN": "aw"}[m]) for w in irs["IRWaveList"])]
        # requests this set can serve (the plan says which frames go out), with different codes
        good = []
        for _ in range(400):
            cand = request_for(r.choice([31, 15, 7, 14, 3]), r)
            plan = ops.breeze_plan(cand, rep, irs)
            if plan[0] == "ok" and any(k == "breeze_command" for k, _ in plan[1]):
                key = next(x.get("key") for k, x in plan[1] if k == "breeze_command")
                if all(key != g[1] for g in good):
                    good.append((cand, key))
            if len(good) >= 3:
                break
        if len(good) < 2:
            return []
        a = {"type": 2, "id": "a1a1a1", "key": "18", "op": "control_breeze", "args": good[0][0], "remote": remote}
        b = {"type": 2, "id": "b2b2b2", "key": "27", "op": "control_breeze", "args": good[1][0], "remote": remote}
        c = {"type": 2, "id": "c3c3c3", "key": "31", "op": "control_breeze", "args": good[-1][0], "remote": remote}
        return [api_pair("control_breeze_device(A) || control_breeze_device(B), one remote object, two threads", a, b, thermostat=rep),
                api_pair("control_breeze_device(C) || control_breeze_device(A), one remote object, two threads", c, a, thermostat=rep)]


PROP = C16()
