"""C09 - no device reply can crash the client or be mistaken for success.

Fault enumeration: every operation shape x every step of its exchange x
{end of stream, every prefix length of the valid reply, random bytes, valid
reply with one field corrupted}.  "Nothing" is produced the only way a socket
can produce it: end of stream, as a half-close, so the device keeps reading and
"no further frame is sent" is observed rather than assumed.
"""

import asyncio
from .. import env, gen, ops, tcpwork
from ..fakes import memstream
from ..fakes import tcp_device as td
from ..prop import Prop
from ..ref import frames, replies
from ..selftest import reply_captures

STATE_QUERIES = {"get_state", "get_shutter_state", "get_breeze_state"}
REPORTED = {"temp_tenths": 255, "state": "ON", "mode": "COOL", "target": 24, "fan": "LOW", "swing": "OFF", "remote_id": "ELEC7001"}

# (shape name, api type, op, args, remote, steps)
SHAPES = [
    ("get_state", 1, "get_state", {}, None, 2),
    ("turn_on", 1, "turn_on", {"minutes": 0}, None, 2),
    ("turn_on_timer", 1, "turn_on_timer", {"minutes": 30}, None, 2),
    ("turn_off", 1, "turn_off", {}, None, 2),
    ("set_auto_shutdown", 1, "set_auto_shutdown", {"seconds": 7200}, None, 2),
    ("set_device_name", 1, "set_device_name", {"name": "boiler"}, None, 2),
    ("get_schedules", 1, "get_schedules", {}, None, 2),
    ("delete_schedule", 1, "delete_schedule", {"slot": "1"}, None, 2),
    ("create_schedule", 1, "create_schedule", {"start": "10:00", "end": "11:00", "days": ["SUNDAY"]}, None, 2),
    ("stop", 2, "stop", {}, None, 2),
    ("set_position", 2, "set_position", {"position": 30}, None, 2),
    ("get_shutter_state", 2, "get_shutter_state", {}, None, 2),
    ("get_breeze_state", 2, "get_breeze_state", {}, None, 2),
    ("breeze_main", 2, "control_breeze", {"state": "ON", "mode": "COOL", "target": 23}, "ordinary", 3),
    ("breeze_update", 2, "control_breeze", {"mode": "HEAT", "update_state": True}, "ordinary", 3),
    ("breeze_swing_only", 2, "control_breeze", {"swing": "ON"}, "special", 2),
    ("breeze_main_swing", 2, "control_breeze", {"fan": "HIGH", "swing": "OFF"}, "special", 4),
]
SHAPE_BY_NAME = {s[0]: s for s in SHAPES}


def valid_reply(shape, step):
    name = shape[0]
    if step == 0:
        return replies.login(bytes.fromhex("a1b2c3d4"))
    if name == "get_state":
        return replies.state1({"state": "ON", "power": 1500, "time_left": 600, "time_on": 60, "auto_shutdown": 7200})
    if name == "get_shutter_state":
        return replies.shutter({"position": 40, "direction": "UP"})
    if name == "get_breeze_state" or (shape[2] == "control_breeze" and step == 1 and name != "breeze_swing_only"):
        return replies.thermostat(REPORTED)
    if name == "get_schedules":
        return replies.schedules([replies.schedule_record(0, 0x54, 1_700_000_000, 1_700_003_600)])
    return replies.ack()


CORRUPTIONS = {
    "state1": [(75, v) for v in (2, 3, 0x10, 0x80, 0xFF)] + [(92, 0xFF), (96, 0x7F), (100, 0x02), (91, 0xFF), (99, 0xFF)],
    "shutter": [(78, 1, 79, 1), (78, 2, 79, 0), (78, 0, 79, 2), (78, 0xFF, 79, 0xFF), (76, 0xFF)],
    "thermo": [(79, 0), (79, 6), (79, 0xFF), (81, 0x40), (81, 0xF0), (81, 0x0F), (84, 0xFF), (88, 0xC3), (91, 0x80), (78, 7), (80, 0xFF)],
}


def corrupt(reply: bytes, spec) -> bytes:
    b = bytearray(reply)
    for k in range(0, len(spec), 2):
        b[spec[k]] = spec[k + 1]
    return bytes(b)


class C09(Prop):
    id = "C09"
    level = "fault_enumeration"
    technique = "fault injection at every step of every exchange by a scripted fake device; outcome/exception-type and frame-log oracle"
    rule = ("fault case = (operation shape of 17, step of its exchange, fault); enumerated completely: end-of-stream and every prefix length "
            "of the valid reply at every step; sampled (seeded): random bytes of 1..1024 and single-field corruptions of state replies; "
            "plus 8-operation histories on ONE instance over an in-memory stream where single reads are empty / truncated / garbage and the "
            "surrounding replies are healthy; distinct = (shape, step, fault class, fault length or corruption); non-trivial = all (each injects a fault)")
    level_text = ("Every single-fault point of every exchange is enumerated for end-of-stream and truncation (complete on every run), and "
                  "sampled for garbage and field corruption; the oracle checks the exception type of state queries, the success flag of "
                  "every returned response against the emptiness of the last reply, and that nothing is written after an empty login reply.")
    level_note = "one fault per exchange; healthy replies elsewhere; exception classes of non-state-query operations on garbage are unspecified"
    assumptions = ["an empty reply is end-of-stream (half-close): nothing else makes reader.read() return b''",
                   "type-1 non-state operations after an empty login reply are outside the statement"]
    anchors = ["aioswitcher.api:SwitcherType1Api.get_state", "aioswitcher.api:SwitcherType2Api.get_shutter_state",
               "aioswitcher.api:SwitcherType2Api._get_breeze_state", "aioswitcher.api:SwitcherType2Api.control_breeze_device",
               "aioswitcher.api:SwitcherApi.stop", "aioswitcher.api:SwitcherType2Api.set_position"]
    min_evaluations = {"quick": 15_000, "thorough": 150_000}
    budget_s = {"quick": 300, "thorough": 900}

    def selftest(self):
        reply_captures()

    async def setup(self, ctx):
        self.rig = tcpwork.Rig(ctx["shard"])
        self.dev = await self.rig.device()
        r = env.rng("C09", "remotes")
        self.irsets = {"ordinary": gen.irset(r, toggle=False, special=False, density=1.0, long_codes=False),
                       "special": gen.irset(r, toggle=False, special=True, density=1.0, long_codes=False)}
        self.remotes = {k: tcpwork.make_remote(v) for k, v in self.irsets.items()}

    async def teardown(self, ctx):
        await self.rig.close()

    def cases(self, tier, seed, shard, nshards):
        i = 0
        for sh in SHAPES:
            for step in range(sh[5]):
                n = len(valid_reply(sh, step))
                for fault in [("eof",)] + [("prefix", k) for k in range(1, n)]:
                    # end-of-stream cases also on a connection that sat idle / across a stepped wall clock
                    for jump in ([None, 75, 7200, -900] if fault[0] == "eof" else [None]):
                        if i % nshards == shard:
                            c = {"shape": sh[0], "step": step, "fault": list(fault), "enumerated": True}
                            if jump is not None:
                                c["jump"] = jump
                            yield c
                        i += 1
        n_hist = {"quick": 1_600, "thorough": 120_000}[tier]
        for j in range(n_hist):
            if i % nshards == shard:
                yield {"history": True, "seed": f"{seed}/h{j}", "type": 1 + j % 2}
            i += 1
        n_rand = {"quick": 40_000, "thorough": 1_600_000}[tier]
        for j in range(n_rand):
            if i % nshards == shard:
                r = env.rng("C09", seed, j)
                sh = r.choice(SHAPES)
                step = r.randrange(sh[5])
                x = r.random()
                if x < 0.6:
                    n = int(2 ** r.uniform(0, 10))
                    style = r.choice(["random", "random", "zeros", "ff", "magic"])
                    yield {"shape": sh[0], "step": step, "fault": ["garbage", n, style, f"{seed}/{j}"]}
                else:
                    fam = {"get_state": "state1", "get_shutter_state": "shutter"}.get(sh[0], "thermo")
                    if step == 0 or (sh[0] not in STATE_QUERIES and not (sh[2] == "control_breeze" and step == 1 and sh[0] != "breeze_swing_only")):
                        yield {"shape": sh[0], "step": step, "fault": ["garbage", r.randrange(1, 200), "random", f"{seed}/{j}"]}
                    else:
                        yield {"shape": sh[0], "step": step, "fault": ["corrupt", fam, r.randrange(len(CORRUPTIONS[fam]))]}
            i += 1

    def _fault_bytes(self, sh, step, fault):
        kind = fault[0]
        if kind == "eof":
            return td.EOF
        v = valid_reply(sh, step)
        if kind == "prefix":
            return v[: fault[1]]
        if kind == "garbage":
            n, style, sd = fault[1], fault[2], fault[3]
            r = env.rng("C09g", sd)
            if style == "zeros":
                return bytes(n)
            if style == "ff":
                return b"\xff" * n
            if style == "magic":
                return (b"\xfe\xf0" + r.randbytes(n))[:max(n, 2)]
            return r.randbytes(n)
        if kind == "corrupt":
            return corrupt(v, CORRUPTIONS[fault[1]][fault[2]])
        raise KeyError(kind)

    async def _history(self, case, acc):
        """8 operations on ONE api instance over an in-memory stream; some get one faulty reply (a single empty read,
        a truncated or a garbage reply) at one step, the replies around it are healthy."""
        import aioswitcher.api as api_mod

        r = env.rng("C09h", case["seed"])
        t = case["type"]
        shapes = [sh for sh in SHAPES if sh[1] == t]
        fam = {"v": "thermostat"}
        healthy = td.auto_responder(thermostat=REPORTED, family=lambda conn: fam["v"],
                                    schedule_records=[replies.schedule_record(0, 0x54, 1_700_000_000, 1_700_003_600)])
        inject = {"base": 0, "step": None, "bytes": None}

        def responder(conn, idx, frame):
            if inject["step"] is not None and idx - inject["base"] == inject["step"]:
                return inject["bytes"]
            return healthy(conn, idx, frame)

        with memstream.Patch(responder) as mp:
            api = (api_mod.SwitcherType1Api if t == 1 else api_mod.SwitcherType2Api)("192.0.2.9", "a1b2c3", "18")
            await api.connect()
            conn = mp.conns[-1]
            trace = []
            for n in range(8):
                sh = r.choice(shapes)
                name, _, op, args, remote_kind, nsteps = sh
                fam["v"] = "shutter" if name == "get_shutter_state" else "thermostat"
                step = r.randrange(nsteps) if (n > 0 and r.random() < 0.6) else None
                fault = None
                if step is not None:
                    x = r.random()
                    v = valid_reply(sh, step)
                    if x < 0.5:
                        fault, data = "empty", memstream.EMPTY
                    elif x < 0.75:
                        k = r.randrange(1, len(v))
                        fault, data = f"prefix{k}", v[:k]
                    else:
                        fault, data = "garbage", r.randbytes(r.randrange(1, 300))
                    inject.update(base=len(conn.frames), step=step, bytes=data)
                base = len(conn.frames)
                n_sent = len(conn.sent)
                rec = tcpwork.OpRecord(op, args)
                try:
                    rec.value = await ops.call(api, op, args, self.remotes.get(remote_kind))
                    rec.outcome = "return"
                except Exception as exc:
                    rec.outcome, rec.exc = "raise", exc
                inject["step"] = None
                writes = conn.frames[base:]
                sent = conn.sent[n_sent:]
                acc.ev()
                acc.count("history_operations")
                trace.append((name, step, fault, rec.outcome, type(rec.exc).__name__ if rec.exc else None))
                tag = f"history op #{n + 1} {name} step {step} fault {fault} (earlier: {[x[0] for x in trace[:-1]]})"
                if name in STATE_QUERIES and rec.outcome == "raise" and type(rec.exc) is not RuntimeError:
                    acc.violation(f"state-query-wrong-exception:{name}:{type(rec.exc).__name__}", f"{tag}: raised {type(rec.exc).__name__}: {rec.exc}",
                                  {"trace": [str(x) for x in trace]})
                if rec.outcome == "return" and hasattr(rec.value, "successful") and hasattr(rec.value, "unparsed_response"):
                    last = b"" if (not sent or isinstance(sent[-1], str)) else sent[-1]
                    raw = rec.value.unparsed_response or b""
                    if bool(rec.value.successful) != (len(last) > 0) or raw != last:
                        acc.violation(f"success-flag-wrong:{name}:in-history", f"{tag}: successful={rec.value.successful}, the reply to its last frame had "
                                      f"{len(last)} bytes, the response holds {len(raw)} bytes", {"trace": [str(x) for x in trace]})
                if step == 0 and fault == "empty" and (name in STATE_QUERIES or t == 2):
                    if not (rec.outcome == "raise" and type(rec.exc) is RuntimeError):
                        acc.violation(f"empty-login-not-runtimeerror:{name}:in-history", f"{tag}: outcome {rec.outcome}", {"trace": [str(x) for x in trace]})
                    if len(writes) != 1:
                        acc.violation(f"frame-after-empty-login:{name}:in-history", f"{tag}: wrote {len(writes)} frames", {"trace": [str(x) for x in trace]})
                if step is not None:
                    acc.sig(env.sig("hist", name, step, fault[:6], n))
            await api.disconnect()
        acc.count("histories")

    async def run_case(self, case, acc, ctx):
        if case.get("history"):
            await self._history(case, acc)
            return
        sh = SHAPE_BY_NAME[case["shape"]]
        name, t, op, args, remote_kind, nsteps = sh
        step, fault = case["step"], case["fault"]
        inj = self._fault_bytes(sh, step, fault)
        family = "shutter" if name == "get_shutter_state" else "thermostat"
        healthy = td.auto_responder(thermostat=REPORTED, family=family,
                                    schedule_records=[replies.schedule_record(0, 0x54, 1_700_000_000, 1_700_003_600)])

        first = {"conn": None}
        only_first = case.get("jump") is not None and case["jump"] % 2 == 0   # the fault belongs to this connection; the device itself is well

        def responder(conn, idx, frame):
            if first["conn"] is None:
                first["conn"] = conn
            if idx == step and (conn is first["conn"] or not only_first):
                return inj
            return healthy(conn, idx, frame)

        self.dev.responder = responder
        conns_before = len(self.dev.conns)
        from ..ref import clock

        rj = env.rng("C09t", name, step, str(fault)[:40])
        t0 = 1_785_000_000.0 + rj.randrange(10 ** 6)
        with clock.virtual_time(t0) as traveller:
            cl = await self.rig.connect(self.dev, t, "a1b2c3", "18")
            try:
                # the connection may have been idle for a while (or the host's clock was stepped) before the operation
                jump = case["jump"] if case.get("jump") is not None else rj.choice([0, 0, 2, 61, 420, 7200, -3, -900])
                if jump:
                    traveller.shift(jump)
                    env.idle(abs(jump) + 1)     # idle in real (monotonic) time too, not only on the wall clock
                    acc.count("operations_after_a_clock_jump")
                rec = await cl.run(op, args, self.remotes.get(remote_kind))
                await td.settle(cl.conn, sum(len(w) for w in rec.writes))
            finally:
                await cl.close()
        for _ in range(20):
            await asyncio.sleep(0)
        opened = self.dev.conns[conns_before:]
        frames_received = sum(len(c.frames) for c in opened)
        acc.ev()
        acc.count(f"fault_{fault[0]}")
        acc.count(f"step_{step}")
        acc.sig(env.sig(name, step, fault[:3]))
        tag = f"{name} step {step} fault {fault[:3]}"
        exc = rec.exc
        # 0. whatever the device returned, the operation must come back: the device has sent all it was going to send
        if rec.outcome == "raise" and type(exc).__name__ == "OperationHung":
            acc.violation(f"operation-never-completes:{'state-query' if name in STATE_QUERIES else 'command'}",
                          f"{tag}: {exc}; the client is waiting for bytes the device never sends", {"reply": inj if isinstance(inj, str) else inj.hex()[:400]})
            return
        # 1. state queries: parsed response or RuntimeError, nothing else
        if name in STATE_QUERIES:
            if rec.outcome == "raise" and type(exc) is not RuntimeError:
                acc.violation(f"state-query-wrong-exception:{name}:{type(exc).__name__}", f"{tag}: raised {type(exc).__name__}: {exc}",
                              {"exc": repr(exc), "reply": inj if isinstance(inj, str) else inj.hex()[:400]})
            elif rec.outcome == "return":
                cls = {"get_state": "SwitcherStateResponse", "get_shutter_state": "SwitcherShutterStateResponse",
                       "get_breeze_state": "SwitcherThermostatStateResponse"}[name]
                if type(rec.value).__name__ != cls:
                    acc.violation(f"state-query-wrong-return:{name}", f"{tag}: returned {type(rec.value).__name__}", {})
                else:
                    # "returns a parsed response": every field of it can be read, compared and shown
                    import dataclasses as _dc

                    try:
                        for f_ in _dc.fields(rec.value):
                            getattr(rec.value, f_.name)
                        repr(rec.value)
                        rec.value == rec.value
                    except Exception as exc2:
                        acc.violation(f"state-query-returned-unusable-response:{name}", f"{tag}: the query returned a {cls}, reading it raised {type(exc2).__name__}: {exc2}",
                                      {"reply": inj if isinstance(inj, str) else inj.hex()[:400]})
        # 2. success flag of whatever response object came back
        if rec.outcome == "return" and hasattr(rec.value, "successful") and hasattr(rec.value, "unparsed_response"):
            sent = [s for s in cl.conn.sent]
            last = b"" if (cl.conn.half_closed or not sent or isinstance(sent[-1], str)) else sent[-1]
            raw = rec.value.unparsed_response
            if bool(rec.value.successful) != (len(last) > 0) or (raw or b"") != last:
                acc.violation(f"success-flag-wrong:{name}", f"{tag}: successful={rec.value.successful}, last reply had {len(last)} bytes, "
                              f"response holds {len(raw or b'')} bytes", {"last_reply": last.hex()[:200]})
            acc.count("responses_returned")
            import copy
            import pickle

            for how, dup in (("copy.copy", copy.copy), ("copy.deepcopy", copy.deepcopy), ("pickle round trip", lambda o: pickle.loads(pickle.dumps(o)))):
                acc.ev()
                try:
                    d_ = dup(rec.value)
                except Exception:
                    acc.count("responses_not_duplicable_that_way")
                    continue
                if bool(d_.successful) != (len(last) > 0):
                    acc.violation(f"success-flag-wrong:{name}:copy", f"{tag}: a {how} of the returned response reports successful={d_.successful}, the last reply had {len(last)} bytes",
                                  {"how": how})
        elif rec.outcome == "raise":
            acc.count(f"raised_{type(exc).__name__}")
        # 3. empty login reply: state queries and all type-2 operations raise RuntimeError, nothing further is sent
        if step == 0 and fault[0] == "eof" and (name in STATE_QUERIES or t == 2):
            if not (rec.outcome == "raise" and type(exc) is RuntimeError):
                acc.violation(f"empty-login-not-runtimeerror:{name}", f"{tag}: outcome {rec.outcome} {type(exc).__name__ if exc else ''}", {"exc": repr(exc)})
            if len(rec.writes) != 1 or len(cl.conn.frames) != 1 or frames_received != 1:
                acc.violation(f"frame-after-empty-login:{name}", f"{tag}: client wrote {len(rec.writes)} frames on its connection, the device received "
                              f"{frames_received} frames on {len(opened)} connection(s) (wall clock moved by {jump} s between connect and the operation)",
                              {"kinds": [frames.classify(w) for w in rec.writes], "jump": jump})
            acc.count("empty_login_cases")
        if case.get("enumerated") and fault[0] == "eof" and len(acc.samples) < 4:
            acc.sample({"shape": name, "step": step, "fault": fault, "outcome": rec.outcome,
                        "exception": type(exc).__name__ if exc else None, "frames_written": [frames.classify(w) for w in rec.writes]})


PROP = C09()
