"""C17 - the bridge listens exactly while running and leaves nothing behind.

Action / fault histories on one SwitcherBridge object.  After every action (and
two loop cycles, which the statement allows) the oracle compares `is_running`
with a model, probes every configured port with a plain bind, lets a sentinel
broadcast prove that a running bridge really delivers, and at the end of the
history checks that nothing sent while the bridge was not running was ever
delivered.
"""

import asyncio
import socket
from itertools import product

from .. import env
from ..fakes import udp
from ..prop import Prop
from ..ref import broadcast as rb
from ..selftest import broadcast_captures


class Boom(Exception):
    pass


async def lose_a_tcp_device(ip, acc):
    """The application's TCP client loses its device (the device resets the connection: reboot, watchdog), so the operation under
    way fails and the disconnect may fail too - and the application (re)starts its bridge straight afterwards, before any other
    socket is created: the bridge's sockets then get the descriptor numbers the dead connection has just given back."""
    import struct

    import aioswitcher.api as api_mod

    async def device(reader, writer):
        try:
            await reader.read(1024)      # the login frame
            sock = writer.get_extra_info("socket")
            sock.setsockopt(socket.SOL_SOCKET, socket.SO_LINGER, struct.pack("ii", 1, 0))
        except Exception:
            pass
        writer.transport.abort()         # RST

    try:
        server = await asyncio.start_server(device, ip, 9957, family=socket.AF_INET, reuse_address=True)
    except OSError:
        acc.count("tcp_device_lost_before_start_not_set_up")
        return
    api = api_mod.SwitcherType1Api(ip, "ab12cd", "18")
    try:
        await asyncio.wait_for(api.connect(), 20)
        try:
            await asyncio.wait_for(api.get_state(), 20)
        except Exception:
            pass
        try:
            await asyncio.wait_for(api.disconnect(), 20)
            acc.count("tcp_device_lost_before_start:disconnect_returned")
        except Exception as exc:
            acc.count(f"tcp_device_lost_before_start:disconnect_raised_{type(exc).__name__}")
    except Exception:
        acc.count("tcp_device_lost_before_start_not_set_up")
    finally:
        server.close()
        try:
            await server.wait_closed()
        except Exception:
            pass
    for _ in range(3):
        await asyncio.sleep(0)


def alphabet(nports):
    a = ["start", "stop", "ctx_ok", "ctx_exc", "send_then_stop", "send_yield_stop", "stop_from_callback", "start_cancelled_stop", "start_twice_at_once", "start_with_a_port_that_cannot_be_bound"]
    for i in range(nports):
        a += [f"send{i}", f"occupy{i}", f"release{i}"]
    a.append("swap_port")
    return a


def legal(history, nports):
    running, occ = False, set()
    for a in history:
        if a in ("start", "ctx_ok", "ctx_exc"):
            if running and a != "start":
                return False
            if a == "start":
                # start on a running bridge is allowed as an input: it either fails like any bind failure
                # (then nothing may be left listening) or is a no-op (then the bridge keeps listening);
                # for the legality of later actions treat the bridge as possibly running
                running = True if (not occ or running) else False
        elif a == "stop":
            running = False
        elif a == "start_cancelled_stop":
            if running or occ:
                return False
        elif a == "start_twice_at_once":
            if running or occ:
                return False
            running = True
        elif a == "start_with_a_port_that_cannot_be_bound":
            if running or occ:
                return False
        elif a in ("send_then_stop", "send_yield_stop", "stop_from_callback"):
            if not running:
                return False
            running = False
        elif a == "swap_port":
            if running or occ:
                return False
        elif a.startswith("occupy"):
            i = int(a[6:])
            if running or i in occ:
                return False
            occ.add(i)
        elif a.startswith("release"):
            i = int(a[7:])
            if i not in occ:
                return False
            occ.discard(i)
    return True


class C17(Prop):
    id = "C17"
    tour_noisy = False
    level = "fault_enumeration"
    technique = "action/fault histories on a real bridge; after every action: flag-vs-model, bind probe per port, sentinel delivery; end-of-history no-late-callback check"
    rule = ("history over {start, stop, async-with (normal body / raising body), send-then-stop-without-yielding, send-yield-1..4-times-then-stop, "
            "stop requested from inside the user callback during a burst, start cancelled after 0..8 loop cycles then stop, send to port i, occupy port i "
            "with a foreign socket, release port i}; all legal histories of length <= 4 (1 port) and <= 3 (2 ports; <= 4 in thorough) are "
            "enumerated, longer random ones over 1..4 ports sampled; an independent bridge on another port runs throughout and must keep delivering; distinct = (ports, history); non-trivial = histories containing a bind "
            "failure, a restart, a raising body or traffic while stopped")
    level_text = ("All short action histories are enumerated on every run and longer ones sampled; after each action the running flag, the "
                  "bindability of every configured port and (when running) real delivery on every port are checked, a failed start must leave "
                  "nothing bound, and traffic sent while stopped must never reach the callback.")
    level_note = "start() on a running bridge may either fail (then nothing may be left listening) or be a no-op (then it keeps listening): both are accepted, what follows is judged; 'released' is judged after two event-loop cycles"
    assumptions = ["a port is 'listening' iff a plain bind to it fails and a broadcast to it is delivered",
                   "foreign occupation = a UDP socket bound without SO_REUSEADDR"]
    warnings_as_errors = False   # unknown models are *reported by a warning*: under an error filter that is an exception by design
    anchors = ["aioswitcher.bridge:SwitcherBridge.start", "aioswitcher.bridge:SwitcherBridge.stop",
               "aioswitcher.bridge:SwitcherBridge.__aenter__", "aioswitcher.bridge:SwitcherBridge.__aexit__"]
    min_evaluations = {"quick": 15_000, "thorough": 150_000}
    budget_s = {"quick": 300, "thorough": 900}

    def selftest(self):
        broadcast_captures()

    async def setup(self, ctx):
        from aioswitcher.bridge import SwitcherBridge

        self.Bridge = SwitcherBridge
        self.rig = udp.UdpRig(ctx["shard"])
        self.rig.install(asyncio.get_running_loop())
        self.tag = 0
        self.ncase = 0
        self.lost_ip = f"127.17.{ctx['shard'] % 250 + 1}.17"

    async def teardown(self, ctx):
        self.rig.uninstall(asyncio.get_running_loop())

    def cases(self, tier, seed, shard, nshards):
        i = 0
        for nports, maxlen in ((1, 4), (2, 4 if tier == "thorough" else 3)):
            al = alphabet(nports)
            for n in range(1, maxlen + 1):
                for h in product(al, repeat=n):
                    if not legal(h, nports):
                        continue
                    if i % nshards == shard:
                        yield {"nports": nports, "history": list(h), "exhaustive": True}
                    i += 1
        n_rand = {"quick": 3_200, "thorough": 300_000}[tier]
        for j in range(n_rand):
            if i % nshards == shard:
                r = env.rng("C17", seed, j)
                nports = r.randrange(1, 5)
                al = alphabet(nports)
                h = []
                target = r.randrange(5, 13) if r.random() > 0.02 else 80
                while len(h) < target:
                    a = r.choice(al)
                    if legal(h + [a], nports):
                        h.append(a)
                yield {"nports": nports, "history": h}
            i += 1

    def _tagged(self):
        self.tag = (self.tag + 1) % udp.SENTINEL_BASE
        tag = f"{self.tag:06x}"
        # every family takes its turn, with field values from the edges of their domains: "listening" means that whatever a
        # device may legitimately broadcast reaches the callback
        n = self.tag
        model = ("V2_ESP", "RUNNER", "BREEZE", "POWER_PLUG", "RUNNER_MINI", "V4", "MINI", "TOUCH", "V2_QCA")[n % 9]
        d = {"model": model, "device_id": tag, "device_key": "01", "name": ("probe", "p", "x" * 32, "דוד")[n % 4], "ip": "10.0.0.1", "mac": "00:11:22:33:44:55",
             "state": ("ON", "OFF")[(n // 9) % 2], "power": (100, 0, 65535, 15)[n % 4], "remaining": (60, 0, 86399)[n % 3], "auto_shutdown": (3600, 86399, 0)[n % 3],
             "position": (0, 100, 50, 1)[(n // 9) % 4], "direction": ("STOP", "UP", "DOWN")[n % 3], "mode": ("COOL", "FAN", "AUTO", "DRY", "HEAT")[n % 5],
             "fan": ("LOW", "AUTO", "HIGH", "MEDIUM")[n % 4], "swing": ("OFF", "ON")[n % 2], "temp_tenths": (250, 0, 65535)[n % 3], "target": (24, 0, 255)[n % 3],
             "remote_id": "ELEC7022"}
        return tag, rb.encode(d)

    async def run_case(self, case, acc, ctx):
        nports, history = case["nports"], case["history"]
        self.ncase += 1
        ports = self.rig.free_ports(nports)
        log = self.rig.log
        log.clear()
        bridge = self.Bridge(log.callback, ports)
        # an independent bridge on another port keeps running for the whole history and must be unaffected
        bport = self.rig.free_ports(1)[0]
        bystander = self.Bridge(log.callback, [bport])
        await bystander.start()
        model = False
        occupied = {}           # index -> foreign socket
        must_not_deliver = {}   # tag -> action index at which it was sent while not running
        trace = []

        def vio(mech, msg):
            acc.violation(mech, f"{nports} port(s), history {history}: {msg}", {"history": history, "nports": nports, "trace": trace})

        def delivered_tags():
            return [p.device_id for k, p in log.events if k == "device" and not udp.is_sentinel(p)]

        async def check(after):
            await asyncio.sleep(0)
            await asyncio.sleep(0)
            if bridge.is_running is not model:
                vio("flag-wrong", f"after {after!r} is_running={bridge.is_running}, model says {model}")
            for idx, p in enumerate(ports):
                if idx in occupied:
                    continue
                free = udp.can_bind(p)
                if model and free:
                    vio("running-but-port-not-bound", f"after {after!r} port #{idx} is bindable although the bridge reports running")
                if not model and not free:
                    mech = "port-left-bound-after-failed-start" if "raised" in (trace[-1] if trace else "") and after in ("start", "ctx_ok", "ctx_exc") else "port-not-released"
                    vio(mech, f"after {after!r} port #{idx} is still bound although the bridge is not running")
            if model:
                for idx, p in enumerate(ports):
                    res = await self.rig.barrier(p, timeout=5.0)
                    if res == "dropped":
                        acc.inconclusive_because("kernel dropped datagrams")
                    elif res != "ok":
                        vio("running-but-not-delivering", f"after {after!r} a broadcast to port #{idx} was not delivered")
            late = [t for t in delivered_tags() if t in must_not_deliver]
            if late:
                vio("callback-while-not-running", f"after {after!r}: broadcast sent while the bridge was not running reached the callback")
                for t in late:
                    must_not_deliver.pop(t, None)
            if model and len(trace) % 3 == 0:
                twin = self.Bridge(log.callback, ports)     # same ports, never started
                await twin.stop()
                for idx, p in enumerate(ports):
                    if await self.rig.barrier(p, timeout=5.0) != "ok":
                        vio("other-bridge-affected", f"after {after!r}: stopping another, never started bridge object configured for the same ports silenced port #{idx}")
                        break
            if bystander.is_running is not True or await self.rig.barrier(bport, timeout=5.0) != "ok":
                vio("other-bridge-affected", f"after {after!r} an independent running bridge reports is_running={bystander.is_running} or no longer delivers")

        async def do_start(kind):
            nonlocal model
            expect_fail = bool(occupied)
            if kind == "start" and model:
                # second start on a running bridge: either outcome is fine, what follows is judged as usual
                try:
                    await bridge.start()
                    trace.append("start-while-running returned")
                    model = True
                except OSError:
                    trace.append("start-while-running raised OSError")
                    model = False
                except Exception as exc:
                    trace.append(f"start-while-running raised {type(exc).__name__}")
                    vio("start-wrong-exception", f"start on a running bridge raised {type(exc).__name__}: {exc}")
                    model = False
                acc.count("start_while_running")
                return
            try:
                if kind == "start":
                    if self.ncase % 4 == 0:
                        await lose_a_tcp_device(self.lost_ip, acc)
                        trace.append("tcp device lost")
                    await bridge.start()
                    trace.append("start ok")
                    if expect_fail:
                        vio("start-ignored-bind-failure", "start returned although a configured port is occupied")
                    model = True
                else:
                    async with bridge as b:
                        trace.append(f"{kind} entered")
                        if expect_fail:
                            vio("start-ignored-bind-failure", "async with entered although a configured port is occupied")
                        model = True
                        if b is not bridge:
                            vio("aenter-returned-other", "async with did not yield the bridge")
                        await check(kind + ":inside")
                        if kind == "ctx_exc":
                            raise Boom()
                    trace.append(f"{kind} left")
                    model = False
            except Boom:
                trace.append("ctx_exc Boom propagated")
                model = False
            except OSError as exc:
                trace.append(f"{kind} raised {type(exc).__name__}")
                if not expect_fail:
                    vio("start-failed-on-free-ports", f"{kind} raised {type(exc).__name__}: {exc}")
                model = False
            except Exception as exc:
                trace.append(f"{kind} raised {type(exc).__name__}")
                vio("start-wrong-exception", f"{kind} raised {type(exc).__name__}: {exc}")
                model = False

        try:
            for n, a in enumerate(history):
                env.idle((0, 0, 0, 0.5, 3, 40, 700, 86400)[(n * 3 + len(history) + nports) % 8])      # real time passes between the calls
                acc.ev()
                acc.count(f"action_{a.rstrip('0123456789')}")
                if a in ("start", "ctx_ok", "ctx_exc"):
                    await do_start(a)
                elif a == "stop":
                    try:
                        await bridge.stop()
                        trace.append("stop ok")
                    except Exception as exc:
                        trace.append(f"stop raised {type(exc).__name__}")
                        vio("stop-raised", f"stop raised {type(exc).__name__}: {exc}")
                    model = False
                elif a == "start_with_a_port_that_cannot_be_bound":
                    # the last configured port cannot be bound for another reason than "address in use" (a typo: out of range):
                    # whatever the error, it is raised and nothing is left listening
                    saved = ports[-1]
                    ports[-1] = (65536, 70000, 200003, -1, 2 ** 40)[(n + len(history) + nports) % 5]
                    try:
                        await bridge.start()
                        trace.append("start with an unbindable port returned")
                        vio("start-ignored-bind-failure", f"start returned although port {ports[-1]} cannot be bound")
                        await bridge.stop()
                    except Exception as exc:
                        trace.append(f"start raised {type(exc).__name__}")
                        acc.count(f"unbindable_port_start_raised_{type(exc).__name__}")
                    finally:
                        ports[-1] = saved
                    model = False
                elif a == "start_twice_at_once":
                    # two tasks of the application start the same stopped bridge at the same time: whatever each call does, afterwards
                    # the bridge either listens on every port and says so, or listens on none (then it is started again, alone)
                    r1, r2 = await asyncio.gather(bridge.start(), bridge.start(), return_exceptions=True)
                    trace.append(f"start twice at once: {type(r1).__name__ if r1 is not None else 'ok'} / {type(r2).__name__ if r2 is not None else 'ok'}")
                    for rr in (r1, r2):
                        if rr is not None and not isinstance(rr, OSError):
                            vio("start-wrong-exception", f"one of two concurrent start() calls raised {type(rr).__name__}: {rr}")
                    model = bridge.is_running
                    acc.count("concurrent_double_starts")
                    await check(a)
                    if not model:
                        try:
                            await bridge.start()
                            model = True
                            trace.append("start ok")
                        except Exception as exc:
                            vio("start-failed-on-free-ports", f"start after a failed concurrent double start raised {type(exc).__name__}: {exc}")
                elif a == "start_cancelled_stop":
                    # the caller gives up on start() (task cancelled / wait_for expired) after k loop cycles, then stops the bridge
                    k = (n * 5 + len(history) + nports) % 9
                    task = asyncio.ensure_future(bridge.start())
                    for _ in range(k):
                        await asyncio.sleep(0)
                    task.cancel()
                    try:
                        await task
                        outcome = "start had already finished"
                    except asyncio.CancelledError:
                        outcome = "cancelled"
                    except Exception as exc:
                        outcome = f"raised {type(exc).__name__}"
                        vio("start-wrong-exception", f"a start() cancelled after {k} loop cycles raised {type(exc).__name__}: {exc}")
                    acc.count("starts_cancelled_midway" if outcome == "cancelled" else "starts_finished_before_the_cancel")
                    try:
                        await bridge.stop()
                    except Exception as exc:
                        vio("stop-raised", f"stop after a cancelled start raised {type(exc).__name__}: {exc}")
                    trace.append(f"start cancelled after {k} cycles ({outcome}), stop")
                    model = False
                    for p in ports:
                        tag, data = self._tagged()
                        self.rig.send(p, data)
                        must_not_deliver[tag] = n
                elif a == "send_then_stop":
                    for p in ports:
                        tag, data = self._tagged()
                        self.rig.send(p, data)
                        must_not_deliver[tag] = n   # stop() follows without yielding to the loop
                    await bridge.stop()
                    trace.append("send_then_stop")
                    model = False
                elif a == "send_yield_stop":
                    # traffic is in flight, the loop gets one or two turns (a datagram may be read, its dispatch may be pending), then stop:
                    # whatever was delivered before stop returned is fine, nothing may be delivered after it
                    mine = []
                    for p in ports:
                        for _ in range(3):
                            tag, data = self._tagged()
                            self.rig.send(p, data)
                            mine.append(tag)
                    for _ in range(1 + (n + len(history) * 3 + nports) % 4):
                        await asyncio.sleep(0)
                    await bridge.stop()
                    done_before = set(delivered_tags())
                    for tag in mine:
                        if tag not in done_before:
                            must_not_deliver[tag] = n
                    trace.append(f"send_yield_stop ({len(done_before & set(mine))} of {len(mine)} delivered before stop returned)")
                    model = False
                elif a == "stop_from_callback":
                    # re-entrancy: the user's callback asks for the bridge to be stopped when it sees the first of a burst
                    mine, state = [], {"task": None}
                    for p in ports:
                        for _ in range(4):
                            tag, data = self._tagged()
                            mine.append(tag)
                    first = mine[0]

                    def hook(dev, count):
                        if dev.device_id == first and state["task"] is None:
                            state["task"] = asyncio.ensure_future(bridge.stop())
                        return False

                    log.raise_on = hook
                    k = 0
                    for p in ports:
                        for _ in range(4):
                            d = {"model": "V2_ESP", "device_id": mine[k], "device_key": "01", "name": "burst", "ip": "10.0.0.2", "mac": "00:11:22:33:44:66",
                                 "state": "OFF", "power": 0, "remaining": 0, "auto_shutdown": 3600}
                            self.rig.send(p, rb.encode(d))
                            k += 1
                    for _ in range(400):
                        if state["task"] is not None and state["task"].done():
                            break
                        await asyncio.sleep(0)
                    log.raise_on = None
                    if state["task"] is None or not state["task"].done():
                        acc.count("stop_from_callback_not_triggered")
                        await bridge.stop()
                    done_before = set(delivered_tags())
                    for tag in mine:
                        if tag not in done_before:
                            must_not_deliver[tag] = n
                    trace.append(f"stop_from_callback ({len(done_before & set(mine))} of {len(mine)} delivered before stop returned)")
                    model = False
                elif a.startswith("send"):
                    idx = int(a[4:])
                    tag, data = self._tagged()
                    self.rig.send(ports[idx], data)
                    if model:
                        res = await self.rig.barrier(ports[idx], timeout=5.0)
                        if res == "ok" and tag not in delivered_tags():
                            vio("running-but-not-delivering", f"broadcast to port #{idx} of a running bridge was not delivered")
                        trace.append(f"send{idx} running")
                    else:
                        must_not_deliver[tag] = n
                        trace.append(f"send{idx} stopped")
                elif a == "swap_port":
                    # the caller keeps the list it configured the bridge with and, while the bridge is stopped, replaces one port
                    # (the device moved to the new firmware's port): from now on that is the configuration
                    idx = (n + len(history)) % nports
                    ports[idx] = self.rig.free_ports(1)[0]
                    trace.append(f"swap_port #{idx}")
                    acc.count("configured_ports_replaced_while_stopped")
                elif a.startswith("occupy"):
                    idx = int(a[6:])
                    s = socket.socket(socket.AF_INET, socket.SOCK_DGRAM)
                    try:
                        s.bind(("0.0.0.0", ports[idx]))
                        occupied[idx] = s
                        trace.append(f"occupy{idx}")
                    except OSError:
                        s.close()
                        trace.append(f"occupy{idx} failed")
                        vio("port-not-released", f"cannot occupy port #{idx} although the bridge is not running")
                elif a.startswith("release"):
                    idx = int(a[7:])
                    sock = occupied.pop(idx, None)
                    if sock is not None:
                        sock.close()
                    trace.append(f"release{idx}")
                await check(a)
            # end of history: nothing sent while stopped is ever delivered
            if not model:
                for idx, p in enumerate(ports):
                    if idx not in occupied:
                        tag, data = self._tagged()
                        self.rig.send(p, data)
                        must_not_deliver[tag] = len(history)
            for _ in range(5):
                await asyncio.sleep(0)
            await asyncio.sleep(0.005)
            late = [t for t in delivered_tags() if t in must_not_deliver]
            if late:
                vio("callback-while-not-running", "a broadcast sent while the bridge was not running reached the callback (seen at end of history)")
        finally:
            try:
                await bridge.stop()
            except Exception:
                pass
            try:
                await bystander.stop()
            except Exception:
                pass
            for s in occupied.values():
                s.close()
            await asyncio.sleep(0)
            await asyncio.sleep(0)
            if any(isinstance(p, int) and 0 < p < 65536 and not udp.can_bind(p) for p in ports):
                # already reported above; do not let the leak starve the following cases of ports
                acc.count("leaked_sockets_reclaimed_by_the_harness", udp.reclaim_leaked_datagram_sockets(ports))
                await asyncio.sleep(0)
        bind_failure = any(t.endswith("raised OSError") for t in trace)
        restart = sum(1 for t in trace if t in ("start ok", "ctx_ok entered", "ctx_exc entered")) >= 2
        if bind_failure or restart or "ctx_exc" in history or must_not_deliver:
            acc.sig(env.sig(nports, history))
        acc.count("histories")
        acc.count("histories_with_bind_failure", int(bind_failure))
        if case.get("exhaustive"):
            acc.count("exhaustive_histories")
        if bind_failure and len(acc.samples) < 3:
            acc.sample({"ports": nports, "history": history, "trace": trace})


PROP = C17()
