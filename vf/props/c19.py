"""C19 - device types, categories, classes and ports are mutually consistent.

Invariant check on the live imported objects: complete over all types x classes
and all categories in both port tables (whatever members exist at run time).
"""

import asyncio
import dataclasses
from itertools import combinations

from .. import env, gen, tcpwork
from ..fakes import tcp_device as td
from ..fakes import udp
from ..prop import Prop
from ..ref import broadcast as rb

CLASS_CATEGORY = {
    "SwitcherPowerPlug": "POWER_PLUG",
    "SwitcherWaterHeater": "WATER_HEATER",
    "SwitcherThermostat": "THERMOSTAT",
    "SwitcherShutter": "SHUTTER",
}
UDP = {1: 20002, 2: 20003}
TCP = {1: 9957, 2: 10000}


FIELD_VARIANTS = [
    {"position": 0}, {"position": 100}, {"position": 1}, {"power_consumption": 0, "electric_current": 0.0},
    {"power_consumption": 65535, "electric_current": 297.9}, {"remaining_time": "00:00:00", "auto_shutdown": "00:00:00"},
    {"temperature": 0.0, "target_temperature": 0}, {"temperature": 6553.5, "target_temperature": 255}, {"name": "x"},
    {"device_id": "000000", "device_key": "00"}, {"ip_address": "0.0.0.0", "mac_address": "00:00:00:00:00:00"}, {"remote_id": ""},
]


def socket_on(port):
    import socket

    sock = socket.socket(socket.AF_INET, socket.SOCK_DGRAM)
    try:
        sock.bind(("0.0.0.0", port))
        return sock
    except OSError:
        sock.close()
        return None


class C19(Prop):
    id = "C19"
    tour_every = 3
    level = "exploration"
    technique = "exhaustive invariant check over the live enum members, device classes and port tables"
    rule = ("checked on the fresh import and again after a workload (bridge on default/new-firmware/custom ports hearing all 9 types together with "
            "undecodable / unknown-model / foreign datagrams and a callback that sometimes raises, a start that fails half way, both API classes used "
            "incl. an empty login reply and a refused connection), the whole thing once in a normal and once in an optimised (-O) interpreter; every (device type, device class) pair is constructed for real (accept iff categories match); every type's model "
            "code / protocol type / category is inspected; every unordered pair of types is compared for code uniqueness; every "
            "category is looked up in both port tables; each evaluation is distinct by construction")
    level_text = ("Finite space enumerated completely on every run (exhaustive: true): all live DeviceType members x 4 classes, "
                  "all code pairs, all categories in both port tables and the ports the two API classes and the default bridge really use.")
    level_note = "trusts the class->category table and the four port numbers quoted in the statement"
    assumptions = ["class-to-category table and port numbers as written in the statement"]
    warnings_as_errors = False   # unknown models are *reported by a warning*: under an error filter that is an exception by design
    anchors = ["aioswitcher.device:SwitcherWaterHeater.__post_init__", "aioswitcher.device:SwitcherShutter.__post_init__",
               "aioswitcher.device:SwitcherThermostat.__post_init__", "aioswitcher.device:SwitcherPowerPlug.__post_init__"]
    min_evaluations = {"quick": 400, "thorough": 400}
    exhaustive = {"quick": True, "thorough": True}
    nshards = {"quick": 2, "thorough": 2}

    def worker_pyflags(self, shard, nshards=1):
        # the same complete enumeration once more in an optimised interpreter (python -O): guards written as
        # assertions or under `if __debug__:` vanish there
        return ["-O"] if shard == 1 else []

    async def setup(self, ctx):
        self.shard = ctx["shard"]
        import aioswitcher.api as api
        import aioswitcher.bridge as bridge
        import aioswitcher.device as device

        self.api, self.bridge, self.device = api, bridge, device

    def cases(self, tier, seed, shard, nshards):
        # the invariants are checked on the freshly imported objects, then again after the library has been used
        for phase in ("fresh", "after-workload"):
            if phase == "after-workload":
                yield {"kind": "workload", "seed": seed}
            yield {"kind": "constructors", "phase": phase}
            yield {"kind": "types", "phase": phase}
            yield {"kind": "ports", "phase": phase}

    async def _workload(self, case, acc):
        """Ordinary use between the two invariant passes: a bridge hearing every device type on classic,
        new-firmware and custom ports, and both API classes talking to a device."""
        r = env.rng("C19", case["seed"])
        rig = udp.UdpRig(self.shard)
        loop = asyncio.get_running_loop()
        rig.install(loop)
        try:
            default_ports = [20002, 10002, 20003, 10003]
            port_sets = [rig.free_ports(2)]
            if self.shard == 0 and all(udp.can_bind(p) for p in default_ports):
                port_sets.insert(0, None)   # the library's own defaults (free inside the private network namespace)
            inside = {"n": 0}

            def consumer(device):
                # a consumer that builds device objects of its own while it is being called back (copies, test doubles, merged
                # views): the class/category rule holds there as everywhere else
                if inside["n"] < 4 and not udp.is_sentinel(device):
                    inside["n"] += 1
                    self._matrix(acc, ":inside-the-callback")
                return rig.log.callback(device)

            for ports in port_sets:
                bridge = self.bridge.SwitcherBridge(consumer) if ports is None else self.bridge.SwitcherBridge(consumer, ports)
                use = default_ports if ports is None else ports
                rig.log.raise_on = lambda dev, n: n % 5 == 0     # a user callback that sometimes fails
                async with bridge:
                    for p in use:
                        for j, model in enumerate(gen.MODELS * 2):
                            # second round: a handful of ids shared by devices of every family (replaced hardware, three-byte id collisions)
                            did = f"{(j + 1) * 7919 % 0xEFFFFF:06x}" if j < 9 else ("0a0b0c", "00c0de")[j % 2]
                            d = gen.broadcast_desc(r, model, r.randrange(10 ** 6), did)
                            good = rb.encode(d)
                            rig.send(p, good)
                            # the ugly side of real traffic: undecodable fields, unknown models, foreign bytes
                            bad = bytearray(good)
                            if model in ("RUNNER", "RUNNER_MINI"):
                                bad[137:139] = b"\x01\x01"
                            elif model == "BREEZE":
                                bad[140] = 0x90
                            else:
                                bad[42] = 0xFF
                            rig.send(p, bytes(bad))
                            unk = bytearray(good)
                            unk[74:76] = b"\xee\xee"
                            rig.send(p, bytes(unk))
                            rig.send(p, r.randbytes(r.randrange(0, 200)))
                            rig.send(p, good)
                        if await rig.barrier(p) != "ok":
                            acc.inconclusive_because("workload: sentinel not delivered")
                    rig.log.raise_on = None
                    # right after a broadcast of a known model that could not be decoded (nothing good has arrived since)
                    for model in ("V4", "BREEZE", "RUNNER"):
                        good = rb.encode(gen.broadcast_desc(r, model, 3, "0e0e0e"))
                        bad = bytearray(good)
                        if model == "RUNNER":
                            bad[137:139] = b"\x01\x01"
                        elif model == "BREEZE":
                            bad[140] = 0x90
                        else:
                            bad[42:74] = b"n" * 31 + b"\xd7"
                        n_ev = len(rig.log.events)
                        rig.send(use[0], bytes(bad))
                        for spin in range(300):
                            if len(rig.log.events) > n_ev:
                                break
                            await asyncio.sleep(0 if spin < 200 else 0.002)
                        self._matrix(acc, ":right-after-an-undecodable-broadcast")
                    await rig.barrier(use[0])
                    # a long-lived process on a noisy network: hundreds of distinct model codes nobody knows ...
                    known = {bytes.fromhex(t.hex_rep) for t in self.device.DeviceType}
                    template = rb.encode(gen.broadcast_desc(r, "V4", 1, "0d0e0f"))
                    n_unknown = 0
                    for code in r.sample(range(0x10000), 700 if ports is not None else 300):
                        cb = code.to_bytes(2, "big")
                        if cb in known:
                            continue
                        unk = bytearray(template)
                        unk[74:76] = cb
                        rig.send(use[n_unknown % len(use)], bytes(unk))
                        n_unknown += 1
                        if n_unknown % 50 == 0:
                            await rig.barrier(use[(n_unknown - 1) % len(use)])
                    acc.count("workload_distinct_unknown_model_codes", n_unknown)
                    for p in use:
                        await rig.barrier(p)
                    # ... after which every known model code must still identify its type
                    mark = len(rig.log.events)
                    want = {}
                    for j, model in enumerate(gen.MODELS):
                        did = f"{0xB00000 + j:06x}"
                        want[did] = model
                        rig.send(use[j % len(use)], rb.encode(gen.broadcast_desc(r, model, r.randrange(10 ** 6), did)))
                    for p in use:
                        if await rig.barrier(p) != "ok":
                            acc.inconclusive_because("workload: sentinel not delivered")
                    got = {dv_.device_id: dv_ for k, dv_ in rig.log.events[mark:] if k == "device" and not udp.is_sentinel(dv_)}
                    for did, model in want.items():
                        acc.ev()
                        acc.distinct()
                        dv_ = got.get(did)
                        if dv_ is None or dv_.device_type.name != model:
                            acc.violation("model-code-stops-identifying-type:after-use",
                                          f"after {n_unknown} distinct unknown model codes had been heard, a {model} broadcast (code "
                                          f"{rb.MODELS[model][0]}) was " + ("not delivered at all" if dv_ is None else f"delivered as {dv_.device_type.name}"),
                                          {"model": model, "unknown_codes_heard": n_unknown})
                rig.log.raise_on = None
                acc.count("workload_datagrams", 18 * 5 * len(use))
                # a start that fails half way
                await asyncio.sleep(0)
                await asyncio.sleep(0)
                held = socket_on(use[-1])
                if held is not None:
                    try:
                        await bridge.start()
                        await bridge.stop()
                    except OSError:
                        acc.count("workload_failed_starts")
                    held.close()
            acc.count("workload_devices_delivered", sum(1 for k, _ in rig.log.events if k == "device"))
            # every object the library handed out obeys the class/category rule its constructor enforces
            for k, dv_ in rig.log.events:
                if k != "device" or udp.is_sentinel(dv_):
                    continue
                acc.ev()
                cat = CLASS_CATEGORY.get(type(dv_).__name__)
                tcat = getattr(getattr(dv_.device_type, "category", None), "name", None)
                if cat is None or cat != tcat:
                    acc.violation("delivered-object-of-wrong-class:after-use", f"the bridge handed out a {type(dv_).__name__} whose device_type is "
                                  f"{getattr(dv_.device_type, 'name', dv_.device_type)} (category {tcat}) under id {dv_.device_id}",
                                  {"class": type(dv_).__name__, "type": str(dv_.device_type)})
                else:
                    acc.count("delivered_objects_class_matches_category")
        finally:
            rig.uninstall(loop)
        trig = tcpwork.Rig(self.shard)
        dev = await trig.device()
        try:
            for t, op_list in ((1, ["get_state", "turn_on", "get_schedules"]), (2, ["get_breeze_state", "stop", "get_shutter_state"])):
                cl = await trig.connect(dev, t, "a1b2c3", "18")
                for op in op_list:
                    await cl.run(op, {"minutes": 0} if op == "turn_on" else {})
                    acc.count("workload_tcp_operations")
                # and failures: an empty login reply, then a refused connection
                dev.responder = lambda conn, idx, frame: td.EOF
                await cl.run(op_list[0], {})
                await cl.close()
                dev.responder = td.auto_responder(family="shutter")
                await dev.stop()
                try:
                    await trig.connect(dev, t, "a1b2c3", "18")
                except OSError:
                    acc.count("workload_refused_connects")
                await dev.start()
                # the control port of this protocol type is closed while the other type's port listens on the same address
                own_port = TCP[t]
                await dev.stop_port(own_port)
                nconn = len(dev.conns)
                api_cls = self.api.SwitcherType1Api if t == 1 else self.api.SwitcherType2Api
                probe = api_cls(dev.ip, "a1b2c3", "18")
                acc.ev()
                acc.distinct()
                try:
                    await probe.connect()
                    went = probe._writer.get_extra_info("peername")
                    acc.violation("wrong-tcp-port:after-use", f"SwitcherType{t}Api: port {own_port} refused the connection, the client is now connected to "
                                  f"{went}", {"api": t, "got": went})
                except OSError:
                    acc.count("workload_refused_connects_other_port_open")
                for _ in range(10):
                    await asyncio.sleep(0)
                if len(dev.conns) > nconn:
                    acc.violation("wrong-tcp-port:after-use", f"SwitcherType{t}Api: with port {own_port} closed the device saw a connection on port "
                                  f"{dev.conns[-1].port}", {"api": t, "got": dev.conns[-1].port})
                try:
                    await probe.disconnect()
                except Exception:
                    pass
                await dev.start()
            # the device given by host name: both API classes, one after the other, each on the control port of its own protocol type
            import socket as _socket

            def tcp_free(port):
                s_ = _socket.socket()
                try:
                    s_.bind(("127.0.0.1", port))
                    return True
                except OSError:
                    return False
                finally:
                    s_.close()

            if self.shard == 0 and tcp_free(9957) and tcp_free(10000):
                local = td.FakeDevice("127.0.0.1")
                await local.start()
                try:
                    for t in (1, 2, 1, 2):
                        api_cls = self.api.SwitcherType1Api if t == 1 else self.api.SwitcherType2Api
                        probe = api_cls("localhost", "a1b2c3", "18")
                        n0 = len(local.conns)
                        acc.ev()
                        acc.distinct()
                        try:
                            await probe.connect()
                            for _ in range(50):
                                if len(local.conns) > n0:
                                    break
                                await asyncio.sleep(0)
                            got_port = local.conns[-1].port if len(local.conns) > n0 else None
                            if got_port != TCP[t]:
                                acc.violation("wrong-tcp-port:after-use", f"SwitcherType{t}Api('localhost') connected to port {got_port}, want {TCP[t]} "
                                              f"(the other API class had used the same host name before)", {"api": t, "got": got_port})
                            acc.count("workload_connects_by_host_name")
                        except OSError as exc:
                            acc.count("workload_host_name_connect_failed")
                        finally:
                            try:
                                await probe.disconnect()
                            except Exception:
                                pass
                finally:
                    await local.stop()
        finally:
            await trig.close()

    def _matrix(self, acc, where):
        dv = self.device
        for cname, cat in CLASS_CATEGORY.items():
            cls = getattr(dv, cname)
            for t in dv.DeviceType:
                acc.ev()
                should = t.category.name == cat
                try:
                    cls(**self._args_for(cls, t))
                    accepted = True
                except ValueError:
                    accepted = False
                except Exception as exc:
                    acc.violation("constructor-crashed" + where, f"{cname}({t.name}) raised {type(exc).__name__}", {"class": cname, "type": t.name})
                    continue
                if accepted != should:
                    acc.violation("class-accepts-wrong-category" + where, f"{cname} {'accepted' if accepted else 'refused'} {t.name} (category {t.category.name}) "
                                  f"when built {where.strip(':').replace('-', ' ')}", {"class": cname, "type": t.name})
        acc.count("matrices_built" + where.replace(":", "_").replace("-", "_"))

    def _args_for(self, cls, dtype):
        dv = self.device
        vals = {
            "device_type": dtype, "device_state": dv.DeviceState.ON, "device_id": "aaaaaa", "device_key": "18",
            "ip_address": "192.168.1.33", "mac_address": "12:A1:A2:1A:BC:1A", "name": "n",
            "power_consumption": 0, "electric_current": 0.0, "remaining_time": "00:00:00", "auto_shutdown": "03:00:00",
            "mode": dv.ThermostatMode.COOL, "temperature": 24.5, "target_temperature": 24,
            "fan_level": dv.ThermostatFanLevel.LOW, "swing": dv.ThermostatSwing.OFF, "remote_id": "ELEC7022",
            "position": 50, "direction": dv.ShutterDirection.SHUTTER_STOP,
        }
        return {f.name: vals[f.name] for f in dataclasses.fields(cls) if f.init}

    async def run_case(self, case, acc, ctx):
        dv = self.device
        types = list(dv.DeviceType)
        kind = case["kind"]
        if kind == "workload":
            await self._workload(case, acc)
            acc.count("optimised_interpreter_passes" if not __debug__ else "normal_interpreter_passes")
            return
        real_violation = acc.violation
        phase = case.get("phase", "fresh")
        if phase != "fresh":
            acc.violation = lambda mech, summary, detail=None, case=None: real_violation(
                f"{mech}:after-use", summary + " (after the library had been used; it held on the fresh import)", detail, case)
        try:
            self._invariants(case, acc, dv, types, kind)
        finally:
            acc.violation = real_violation

    def _invariants(self, case, acc, dv, types, kind):
        if kind == "constructors":
            for cname, cat in CLASS_CATEGORY.items():
                cls = getattr(dv, cname)
                for t, st in [(t, st) for t in types for st in dv.DeviceState]:
                    acc.ev()
                    acc.distinct()
                    should = t.category.name == cat
                    try:
                        kw = self._args_for(cls, t)
                        kw["device_state"] = st
                        obj = cls(**kw)
                        accepted = True
                    except ValueError:
                        accepted = False
                    except Exception as exc:
                        acc.violation("constructor-crashed", f"{cname}({t.name}) raised {type(exc).__name__}", {"class": cname, "type": t.name})
                        continue
                    if accepted and should and st is dv.DeviceState.ON:
                        # ... and whatever the wall clock reads when the object is built (it stamps itself with the current time)
                        from ..ref import clock as _clock

                        for frac in (0.0, 0.25, 0.9994, 0.9995, 0.99975, 0.999999):
                            acc.ev()
                            acc.distinct()
                            try:
                                with _clock.virtual_time(1_790_000_000 + frac):
                                    cls(**kw)
                            except Exception as exc:
                                acc.violation("class-refuses-own-category", f"{cname}({t.name}) built at second fraction {frac} raised {type(exc).__name__}: {exc}",
                                              {"class": cname, "type": t.name, "fraction": frac})
                    if accepted and should and st is dv.DeviceState.ON:
                        # its own category must be accepted whatever legitimate values the other fields carry
                        for variant in FIELD_VARIANTS:
                            kw2 = dict(kw)
                            kw2.update({k2: v2 for k2, v2 in variant.items() if k2 in kw2})
                            if kw2 == kw:
                                continue
                            acc.ev()
                            acc.distinct()
                            try:
                                cls(**kw2)
                            except Exception as exc:
                                acc.violation("class-refuses-own-category", f"{cname}({t.name}) with {variant} raised {type(exc).__name__}: {exc}",
                                              {"class": cname, "type": t.name, "fields": str(variant)})
                    # the same object built in the other ways Python allows: all positional, type positional + rest by keyword,
                    # derived from an object of the right category with dataclasses.replace
                    names = [f.name for f in dataclasses.fields(cls) if f.init]
                    forms = {"positional": lambda: cls(*[kw[n_] for n_ in names]),
                             "type-positional-rest-keyword": lambda: cls(kw[names[0]], **{n_: kw[n_] for n_ in names[1:]}),
                             "keyword-reversed-order": lambda: cls(**{n_: kw[n_] for n_ in reversed(names)})}
                    own = next(x for x in types if x.category.name == cat)
                    try:
                        base = cls(**dict(kw, device_type=own))
                        forms["dataclasses.replace"] = lambda: dataclasses.replace(base, device_type=t)
                    except Exception:
                        pass
                    for form, fn in forms.items():
                        acc.ev()
                        acc.distinct()
                        try:
                            fn()
                            acc2 = True
                        except ValueError:
                            acc2 = False
                        except Exception as exc:
                            acc.violation("constructor-crashed", f"{cname}({t.name}) built as {form} raised {type(exc).__name__}: {exc}", {"class": cname, "type": t.name, "form": form})
                            continue
                        if acc2 != should:
                            acc.violation(f"class-accepts-wrong-category:{form}", f"{cname} built as {form} {'accepted' if acc2 else 'refused'} {t.name} "
                                          f"(category {t.category.name})", {"class": cname, "type": t.name, "form": form})
                    # an application's own subclass of the device class is still that device class
                    Sub = type("My" + cname, (cls,), {"note": "application subclass"})
                    acc.ev()
                    acc.distinct()
                    try:
                        Sub(**kw)
                        acc3 = True
                    except ValueError:
                        acc3 = False
                    except Exception as exc:
                        acc3 = None
                        acc.violation("constructor-crashed", f"a subclass of {cname} built with {t.name} raised {type(exc).__name__}: {exc}", {"class": cname, "type": t.name})
                    if acc3 is not None and acc3 != should:
                        acc.violation("class-accepts-wrong-category:subclass", f"a subclass of {cname} {'accepted' if acc3 else 'refused'} {t.name} (category {t.category.name})",
                                      {"class": cname, "type": t.name})
                    if accepted != should:
                        acc.violation("class-accepts-wrong-category",
                                      f"{cname} {'accepted' if accepted else 'refused'} {t.name} (category {t.category.name})",
                                      {"class": cname, "type": t.name, "category": t.category.name})
                    elif accepted and obj.device_type is not t:
                        acc.violation("constructor-lost-type", f"{cname}({t.name}).device_type is {obj.device_type}", {"class": cname, "type": t.name})
            acc.sample({"kind": "constructor", "class": "SwitcherShutter", "type": "RUNNER", "expected": "accepted"})
            if len(types) < 9:
                acc.violation("type-missing", f"only {len(types)} device types exist, the statement quantifies over 9", {"types": [t.name for t in types]})
        elif kind == "types":
            for t in types:
                acc.ev()
                acc.distinct()
                code = t.hex_rep
                ok = isinstance(code, str) and len(code) == 4 and all(c in "0123456789abcdefABCDEF" for c in code)
                if not ok:
                    acc.violation("model-code-not-two-bytes", f"{t.name} has model code {code!r}", {"type": t.name, "code": code})
                if t.protocol_type not in (1, 2):
                    acc.violation("bad-protocol-type", f"{t.name} has protocol type {t.protocol_type!r}", {"type": t.name})
                if not isinstance(t.category, dv.DeviceCategory):
                    acc.violation("bad-category", f"{t.name} has category {t.category!r}", {"type": t.name})
            for a, b in combinations(types, 2):
                acc.ev()
                acc.distinct()
                if str(a.hex_rep).lower() == str(b.hex_rep).lower():
                    acc.violation("duplicate-model-code", f"{a.name} and {b.name} share model code {a.hex_rep}", {"a": a.name, "b": b.name})
            acc.sample({"kind": "types", "observed": {t.name: [t.hex_rep, t.protocol_type, t.category.name] for t in types}})
        elif kind == "ports":
            for cat in dv.DeviceCategory:
                acc.ev()
                acc.distinct()
                protos = {t.protocol_type for t in types if t.category is cat}
                if len(protos) != 1:
                    acc.violation("category-mixes-protocol-types", f"{cat.name} has protocol types {sorted(protos)}", {"category": cat.name})
                    continue
                p = protos.pop()
                udp = self.bridge.SWITCHER_DEVICE_TO_UDP_PORT.get(cat)
                tcp = self.api.SWITCHER_DEVICE_TO_TCP_PORT.get(cat)
                if udp != UDP.get(p):
                    acc.violation("wrong-udp-port", f"{cat.name} (protocol {p}) maps to UDP {udp}, want {UDP.get(p)}", {"category": cat.name, "got": udp})
                if tcp != TCP.get(p):
                    acc.violation("wrong-tcp-port", f"{cat.name} (protocol {p}) maps to TCP {tcp}, want {TCP.get(p)}", {"category": cat.name, "got": tcp})
            # the ports the API objects and the default bridge really use
            acc.ev(3)
            acc.distinct(3)
            a1 = self.api.SwitcherType1Api("127.0.0.1", "aaaaaa", "18")
            a2 = self.api.SwitcherType2Api("127.0.0.1", "aaaaaa", "18")
            import copy
            import pickle

            for how, dup in (("copy.copy", copy.copy), ("copy.deepcopy", copy.deepcopy), ("pickle round trip", lambda o: pickle.loads(pickle.dumps(o)))):
                for orig, want_port, nm in ((a1, 9957, "SwitcherType1Api"), (a2, 10000, "SwitcherType2Api")):
                    acc.ev()
                    acc.distinct()
                    try:
                        d_ = dup(orig)
                    except Exception:
                        acc.count("api_objects_that_cannot_be_duplicated_that_way")
                        continue
                    if getattr(d_, "_port", None) != want_port:
                        acc.violation("wrong-tcp-port", f"a {how} of a {nm} uses port {getattr(d_, '_port', None)}, want {want_port}", {"api": nm, "how": how})
            if a1._port != 9957:
                acc.violation("wrong-tcp-port", f"SwitcherType1Api uses port {a1._port}", {"api": 1, "got": a1._port})
            if a2._port != 10000:
                acc.violation("wrong-tcp-port", f"SwitcherType2Api uses port {a2._port}", {"api": 2, "got": a2._port})
            br = self.bridge.SwitcherBridge(lambda d: None)
            if not {20002, 20003} <= set(br._broadcast_ports):
                acc.violation("wrong-udp-port", f"default bridge ports {br._broadcast_ports} lack 20002/20003", {"got": list(br._broadcast_ports)})
            acc.sample({"kind": "ports", "udp": {c.name: self.bridge.SWITCHER_DEVICE_TO_UDP_PORT.get(c) for c in dv.DeviceCategory},
                        "tcp": {c.name: self.api.SWITCHER_DEVICE_TO_TCP_PORT.get(c) for c in dv.DeviceCategory}})


    def thread_pairs(self, ctx):
        dv = self.device
        cats = list(dv.DeviceCategory)

        def table(mod, name, want):
            def call():
                t = getattr(mod, name)
                return {c.name: t.get(c) for c in cats}

            def j(res):
                if not isinstance(res, dict):
                    return f"{res!r}"
                exp = {c.name: want[next(t.protocol_type for t in dv.DeviceType if t.category is c)] for c in cats}
                return None if res == exp else f"the table maps {res}, want {exp}"
            return call, j

        udp_call, udp_j = table(self.bridge, "SWITCHER_DEVICE_TO_UDP_PORT", UDP)
        tcp_call, tcp_j = table(self.api, "SWITCHER_DEVICE_TO_TCP_PORT", TCP)

        def build(cname, tname):
            cls, t = getattr(dv, cname), dv.DeviceType[tname]
            should = t.category.name == CLASS_CATEGORY[cname]

            def call():
                try:
                    cls(**self._args_for(cls, t))
                    return "accepted"
                except ValueError:
                    return "refused"

            def j(res):
                want = "accepted" if should else "refused"
                return None if res == want else f"{cname}({tname}) was {res}, want {want}"
            return call, j

        out = [("first lookups in the UDP port table || same", udp_call, udp_call, udp_j, udp_j),
               ("first lookups in the TCP port table || same", tcp_call, tcp_call, tcp_j, tcp_j)]
        # what was built last matters to anything that remembers "the last check that passed": build one of another family first
        for (pc, pt), (ca, ta), (cb, tb) in ((("SwitcherShutter", "RUNNER_MINI"), ("SwitcherWaterHeater", "MINI"), ("SwitcherShutter", "MINI")),
                                            (("SwitcherWaterHeater", "V4"), ("SwitcherShutter", "RUNNER"), ("SwitcherWaterHeater", "RUNNER")),
                                            (("SwitcherThermostat", "BREEZE"), ("SwitcherPowerPlug", "POWER_PLUG"), ("SwitcherThermostat", "POWER_PLUG")),
                                            (("SwitcherPowerPlug", "POWER_PLUG"), ("SwitcherThermostat", "BREEZE"), ("SwitcherPowerPlug", "BREEZE"))):
            p_call, _ = build(pc, pt)
            a_call, a_j = build(ca, ta)
            b_call, b_j = build(cb, tb)
            out.append((f"{pc}({pt}) then {ca}({ta}) || {cb}({tb})", (lambda p_=p_call, a_=a_call: (p_(), a_())[1]), b_call, a_j, b_j))
        for (ca, ta), (cb, tb) in ((("SwitcherShutter", "RUNNER"), ("SwitcherWaterHeater", "RUNNER")), (("SwitcherWaterHeater", "MINI"), ("SwitcherShutter", "MINI")),
                                   (("SwitcherThermostat", "BREEZE"), ("SwitcherPowerPlug", "BREEZE")), (("SwitcherPowerPlug", "POWER_PLUG"), ("SwitcherThermostat", "POWER_PLUG"))):
            a_call, a_j = build(ca, ta)
            b_call, b_j = build(cb, tb)
            out.append((f"{ca}({ta}) || {cb}({tb})", a_call, b_call, a_j, b_j))
            out.append((f"{cb}({tb}) || {ca}({ta})", b_call, a_call, b_j, a_j))
        return out


PROP = C19()
