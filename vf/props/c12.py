"""C12 - weekday sets and their one-byte mask are a bijection (exhaustive)."""

from itertools import combinations, product

from collections import UserList, deque
from collections.abc import Sequence

from ..monitors import contracts
from ..prop import Prop

BITS = {"MONDAY": 0x02, "TUESDAY": 0x04, "WEDNESDAY": 0x08, "THURSDAY": 0x10,
        "FRIDAY": 0x20, "SATURDAY": 0x40, "SUNDAY": 0x80}
NAMES = list(BITS)


class Seq(Sequence):
    """A sequence that is neither list nor tuple."""

    def __init__(self, items):
        self._items = list(items)

    def __getitem__(self, i):
        return self._items[i]

    def __len__(self):
        return len(self._items)


def mask_of(names) -> int:
    m = 0
    for n in names:
        m |= BITS[n]
    return m


def _post_encode(rec):
    def mask_has_exactly_those_bits(days, result):
        rec.evaluations += 1
        try:
            members = [days] if not hasattr(days, "__iter__") else list(days)
            want = mask_of({m.name for m in members})
            ok = (isinstance(result, str) and len(result) == 2
                  and all(c in "0123456789abcdefABCDEF" for c in result) and int(result, 16) == want
                  and int(result, 16) & 1 == 0)
            if not ok:
                rec.fail("encode-wrong-mask", {"days": sorted(m.name for m in members), "got": result, "want": f"{want:02x}"})
        except Exception as exc:
            rec.fail("monitor-error", repr(exc))
        return True

    return mask_has_exactly_those_bits


def _post_decode(rec):
    def set_has_exactly_those_days(sum_weekdays_bit, result):
        rec.evaluations += 1
        try:
            if sum_weekdays_bit & 1:
                return True  # odd masks: unspecified
            want = {n for n, b in BITS.items() if sum_weekdays_bit & b}
            got = {m.name for m in result} if isinstance(result, (set, frozenset)) else None
            if got != want:
                rec.fail("decode-wrong-set", {"mask": sum_weekdays_bit, "got": sorted(got) if got is not None else repr(result), "want": sorted(want)})
        except Exception as exc:
            rec.fail("monitor-error", repr(exc))
        return True

    return set_has_exactly_those_days


def attach():
    enc = contracts.attach_post("aioswitcher.schedule.tools:weekdays_to_hexadecimal", _post_encode,
                                aliases=["aioswitcher.api:weekdays_to_hexadecimal"])
    dec = contracts.attach_post("aioswitcher.schedule.tools:bit_summary_to_days", _post_decode)
    return enc, dec


class C12(Prop):
    id = "C12"
    tour_every = 3
    level = "exploration"
    technique = "exhaustive enumeration of the real encoder/decoder under runtime contracts vs an independent bit table"
    rule = ("complete enumeration: 127 non-empty subsets x 6 input forms (set, frozenset, sorted list, reversed list, "
            "sorted tuple, shuffled tuple) + 7 single members, all 256 masks, all 399 sequences of length <= 3 as list, "
            "tuple, deque, UserList and custom Sequence, 4 empty forms; every case is distinct by construction and non-trivial (judged against the bit table); "
            "odd masks 3..253 are unspecified and skipped; 127 aliasing probes edit a returned set and decode the same mask again")
    level_text = ("The input space of the statement is finite and is enumerated completely on every run (exhaustive: true): "
                  "all subsets in all accepted forms, all masks, all short sequences; each result is compared with an independent bit table.")
    level_note = "trusts the 7-entry bit table in vf/props/c12.py; odd masks between 3 and 253 are outside the statement"
    assumptions = ["bit table Monday 0x02 .. Sunday 0x80 as in the statement"]
    anchors = ["aioswitcher.schedule.tools:weekdays_to_hexadecimal", "aioswitcher.schedule.tools:bit_summary_to_days"]
    min_evaluations = {"quick": 3600, "thorough": 3600}
    exhaustive = {"quick": True, "thorough": True}
    nshards = {"quick": 16, "thorough": 16}     # (cheap; sixteen different first-use schedules for the two-thread probes)

    def worker_pyflags(self, shard, nshards=1):
        # the complete enumeration once more under python -O (rejections written as assertions vanish there);
        # icontract switches itself off under -O, the direct comparisons below do not
        return ["-O"] if shard == 1 else []

    async def setup(self, ctx):
        self.enc_rec, self.dec_rec = attach()
        from aioswitcher.schedule import Days, tools

        self.Days, self.tools = Days, tools

    def cases(self, tier, seed, shard, nshards):
        yield {"kind": "first_use"}     # must come first: the very first decode of every mask in this process
        yield {"kind": "subsets"}
        yield {"kind": "masks"}
        yield {"kind": "sequences"}
        yield {"kind": "empty"}
        yield {"kind": "volume"}

    def _drain(self, acc, tag):
        for rec in (self.enc_rec, self.dec_rec):
            for mech, detail in rec.drain():
                acc.violation(mech, f"postcondition failed ({tag})", detail)

    def _encode_ok(self, acc, arg, names, form):
        acc.ev()
        acc.distinct()
        try:
            r = self.tools.weekdays_to_hexadecimal(arg)
        except Exception as exc:
            acc.violation("encode-raised", f"{type(exc).__name__} for valid {form} {sorted(names)}", {"days": sorted(names), "form": form})
            return
        self._drain(acc, f"encode {form}")
        if isinstance(arg, (set, list)) and form in ("set", "list"):
            # hostile caller: edits its own collection afterwards, then a different request with the same leading members
            keep = set(arg) if isinstance(arg, set) else list(arg)
            arg.clear()
            try:
                r_again = self.tools.weekdays_to_hexadecimal(keep)
                self.enc_rec.drain()
                if r_again != r:
                    acc.violation("encode-history-dependent", f"{form} {sorted(names)}: {r!r} first, {r_again!r} after the caller cleared its collection", {"days": sorted(names)})
            except Exception as exc:
                acc.violation("encode-raised", f"re-encode raised {type(exc).__name__}", {"days": sorted(names)})
        if form in ("frozenset", "tuple", "list-reversed", "deque") and len(names) < 7:
            # the caller keeps ONE collection object for its plan and edits it between two pushes: same object, other days
            obj = set(arg) if form == "frozenset" else list(arg)
            try:
                self.tools.weekdays_to_hexadecimal(obj)
                extra = next(self.Days[n_] for n_ in NAMES if n_ not in names)
                if isinstance(obj, set):
                    obj.add(extra)
                else:
                    obj.append(extra)
                r2 = self.tools.weekdays_to_hexadecimal(obj)
                self.enc_rec.drain()
                want2 = mask_of(list(names) + [extra.name])
                acc.ev()
                if not (isinstance(r2, str) and int(r2, 16) == want2):
                    acc.violation("encode-history-dependent", f"the same {type(obj).__name__} object, first {sorted(names)} then with {extra.name} added: second call returned {r2!r}, want {want2:02x}",
                                  {"days": sorted(names)})
                if not isinstance(obj, set):
                    obj.append(extra)      # ... and once more, now bearing a duplicate: refused like any other
                    try:
                        r3 = self.tools.weekdays_to_hexadecimal(obj)
                        acc.violation("encode-accepted-invalid", f"the same list object, grown to hold {extra.name} twice, was accepted: {r3!r}", {"days": sorted(names)})
                    except Exception:
                        pass
                    self.enc_rec.drain()
            except Exception as exc:
                acc.violation("encode-raised", f"re-encode of an edited collection raised {type(exc).__name__}: {exc}", {"days": sorted(names)})
        want = mask_of(names)
        if not (isinstance(r, str) and len(r) == 2 and int(r, 16) == want):
            acc.violation("encode-wrong-mask", f"{form} {sorted(names)} -> {r!r}, want {want:02x}", {"days": sorted(names), "form": form, "got": r})
            return
        # round trip
        try:
            back = self.tools.bit_summary_to_days(int(r, 16))
        except Exception as exc:
            acc.violation("decode-raised", f"decode of {r} raised {type(exc).__name__}", {"mask": r})
            return
        self._drain(acc, "round trip")
        if {m.name for m in back} != set(names):
            acc.violation("round-trip", f"{sorted(names)} -> {r} -> {sorted(m.name for m in back)}", {"days": sorted(names)})

    def _encode_rejects(self, acc, arg, why):
        acc.ev()
        acc.distinct()
        try:
            r = self.tools.weekdays_to_hexadecimal(arg)
        except Exception:
            acc.count("rejected_inputs")
            self.enc_rec.drain()
            return
        self.enc_rec.drain()
        acc.violation("encode-accepted-invalid", f"{why} accepted, returned {r!r}", {"input": repr(arg)[:200], "why": why})

    def run_case(self, case, acc, ctx):
        D = self.Days
        kind = case["kind"]
        if kind == "first_use":
            # the object handed out by the very first decode of a mask in the process is edited by its caller (a schedule's days
            # are a plain public set); the second and third decode of that mask must not notice
            for mask in range(2, 255, 2):
                acc.ev()
                acc.distinct()
                want = {n for n, b in BITS.items() if mask & b}
                try:
                    first = self.tools.bit_summary_to_days(mask)
                    got_first = {m.name for m in first}
                    if isinstance(first, set):
                        extra = next(D[n] for n in NAMES if n not in want) if len(want) < 7 else None
                        if extra is not None:
                            first.add(extra)
                        else:
                            first.discard(D.MONDAY)
                    second = self.tools.bit_summary_to_days(mask)
                    third = self.tools.bit_summary_to_days(mask)
                    self.dec_rec.drain()
                    for which, res in (("first", got_first), ("second", {m.name for m in second}), ("third", {m.name for m in third})):
                        if res != want:
                            acc.violation("decode-aliases-earlier-result" if which != "first" else "decode-wrong-set", f"mask {mask}: the {which} decode in this process "
                                          f"returns {sorted(res)}, want {sorted(want)} (the first result was edited by its caller)", {"mask": mask})
                            break
                except Exception as exc:
                    acc.violation("decode-raised", f"mask {mask} raised {type(exc).__name__} within its first three decodes", {"mask": mask})
            acc.count("first_use_aliasing_probes", 127)
        elif kind == "subsets":
            for n in range(1, 8):
                for names in combinations(NAMES, n):
                    members = [D[x] for x in names]
                    rot = members[len(members) // 2:] + members[: len(members) // 2]
                    for form, arg in (("set", set(members)), ("frozenset", frozenset(members)),
                                      ("list", list(members)), ("list-reversed", list(reversed(members))),
                                      ("tuple", tuple(members)), ("tuple-rotated", tuple(rot)),
                                      ("deque", deque(members)), ("userlist", UserList(rot)), ("custom-sequence", Seq(members)),
                                      ("dict-keys", dict.fromkeys(members).keys())):
                        self._encode_ok(acc, arg, names, form)
                    # the documented parameter given by name
                    for form, arg in (("set", set(members)), ("tuple", tuple(rot))):
                        acc.ev()
                        acc.distinct()
                        try:
                            r = self.tools.weekdays_to_hexadecimal(days=arg)
                            self._drain(acc, f"encode keyword {form}")
                            if not (isinstance(r, str) and len(r) == 2 and int(r, 16) == mask_of(names)):
                                acc.violation("encode-wrong-mask", f"days={form} {sorted(names)} by keyword -> {r!r}", {"days": sorted(names), "form": "keyword"})
                        except Exception as exc:
                            self.enc_rec.drain()
                            acc.violation("encode-raised:keyword", f"{type(exc).__name__}: {exc} for valid {form} {sorted(names)} passed as days=...",
                                          {"days": sorted(names), "form": form})
            for name in NAMES:
                self._encode_ok(acc, D[name], (name,), "single")
            acc.sample({"kind": "subset", "days": ["MONDAY", "SUNDAY"], "observed": self.tools.weekdays_to_hexadecimal({D.MONDAY, D.SUNDAY})})
        elif kind == "masks":
            from ..monitors.keepsake import Keep

            keep = Keep(limit=300)
            for mask in range(256):
                acc.ev()
                if 2 <= mask <= 254 and mask & 1:
                    acc.skip_unspecified()
                    try:
                        self.tools.bit_summary_to_days(mask)
                    except Exception:
                        pass
                    self.dec_rec.drain()
                    continue
                acc.distinct()
                try:
                    r = self.tools.bit_summary_to_days(mask)
                except Exception:
                    if 2 <= mask <= 254:
                        acc.violation("decode-raised", f"mask {mask} raised", {"mask": mask})
                    else:
                        acc.count("rejected_masks")
                    continue
                self._drain(acc, "decode")
                if not 2 <= mask <= 254:
                    acc.violation("decode-accepted-invalid", f"mask {mask} accepted -> {r!r}", {"mask": mask})
                    continue
                want = {n for n, b in BITS.items() if mask & b}
                keep.add(r, f"set returned for mask {mask}")
                try:
                    rk = self.tools.bit_summary_to_days(sum_weekdays_bit=mask)
                    self.dec_rec.drain()
                    if {m.name for m in rk} != want:
                        acc.violation("decode-wrong-set", f"mask {mask} passed by keyword -> {rk!r}", {"mask": mask, "form": "keyword"})
                except Exception as exc:
                    acc.violation("decode-raised:keyword", f"mask {mask} passed by keyword raised {type(exc).__name__}: {exc}", {"mask": mask})
                if not isinstance(r, (set, frozenset)) or {m.name for m in r} != want:
                    acc.violation("decode-wrong-set", f"mask {mask} -> {r!r}", {"mask": mask, "want": sorted(want)})
                    continue
                # and back
                try:
                    h = self.tools.weekdays_to_hexadecimal(r)
                    self._drain(acc, "mask round trip")
                    if int(h, 16) != mask:
                        acc.violation("round-trip", f"mask {mask} -> set -> {h}", {"mask": mask})
                except Exception as exc:
                    acc.violation("encode-raised", f"re-encode of decoded mask {mask} raised {type(exc).__name__}", {"mask": mask})
            keep.verify(acc, "decode-result-changed-later", "the time all other masks had been decoded")
            # a caller that edits what it was handed must not change what the next caller gets
            for mask in range(2, 255, 2):
                acc.ev()
                acc.distinct()
                want = {n for n, b in BITS.items() if mask & b}
                try:
                    first = self.tools.bit_summary_to_days(mask)
                    if isinstance(first, set):
                        first.clear()
                        first.add(self.Days.SUNDAY if mask != 0x80 else self.Days.MONDAY)
                    again = self.tools.bit_summary_to_days(mask)
                    self.dec_rec.drain()
                    if {m.name for m in again} != want:
                        acc.violation("decode-aliases-earlier-result", f"mask {mask}: after the previous result was edited by its caller, decode returns "
                                      f"{sorted(m.name for m in again)}, want {sorted(want)}", {"mask": mask})
                except Exception as exc:
                    acc.violation("decode-raised", f"mask {mask} raised {type(exc).__name__} on the second decode", {"mask": mask})
            acc.count("aliasing_probes", 127)
            acc.sample({"kind": "mask", "mask": 0x54, "observed": sorted(m.name for m in self.tools.bit_summary_to_days(0x54))})
        elif kind == "sequences":
            for n in (1, 2, 3):
                for seq in product(NAMES, repeat=n):
                    members = [D[x] for x in seq]
                    for form, arg in (("list", list(members)), ("tuple", tuple(members)), ("deque", deque(members)),
                                      ("userlist", UserList(members)), ("custom-sequence", Seq(members))):
                        if len(set(seq)) == len(seq):
                            self._encode_ok(acc, arg, seq, f"seq-{form}")
                        else:
                            self._encode_rejects(acc, arg, f"duplicate-bearing {form} {list(seq)}")
            acc.sample({"kind": "sequence", "input": ["MONDAY", "MONDAY"], "expected": "rejected"})
        elif kind == "volume":
            # thousands of short-lived collections: each is encoded, judged and dropped, so later ones reuse the addresses
            # (and ids) of earlier ones; now and then one bearing a duplicate
            import random

            rnd = random.Random(1202)
            for n in range(6000):
                names = rnd.sample(NAMES, rnd.randrange(1, 8))
                members = [D[x] for x in names]
                if n % 11 == 5 and len(members) >= 1:
                    bad = tuple(members + [members[0]])
                    self._encode_rejects(acc, bad, f"duplicate-bearing tuple {[m.name for m in bad]} (after {n} other collections)")
                    continue
                arg = tuple(members) if n % 2 else frozenset(members)
                acc.ev()
                try:
                    r = self.tools.weekdays_to_hexadecimal(arg)
                    if not (isinstance(r, str) and len(r) == 2 and int(r, 16) == mask_of(names)):
                        acc.violation("encode-wrong-mask", f"{type(arg).__name__} {sorted(names)} (the {n}th short-lived collection of the process) -> {r!r}, want {mask_of(names):02x}",
                                      {"days": sorted(names)})
                except Exception as exc:
                    acc.violation("encode-raised", f"{type(exc).__name__} for valid {type(arg).__name__} {sorted(names)}", {"days": sorted(names)})
                del arg
            self.enc_rec.drain()
            acc.count("short_lived_collections_encoded", 6000)
            # the same masks as they sit in a listed schedule record: decoded by the schedule parser
            from aioswitcher.schedule import parser as _parser

            for mask in range(2, 255, 2):
                # ... and again after the caller edited the set the parser had handed out for that mask
                rec = (b"%02x" % 5) + b"01" + (b"%02x" % mask) + b"00" * 13
                want = {n_ for n_, b_ in BITS.items() if mask & b_}
                acc.ev()
                try:
                    first = _parser.ScheduleParser(rec).get_days()
                    if isinstance(first, set):
                        first.clear()
                    again = {m.name for m in _parser.ScheduleParser(rec).get_days()}
                    if again != want:
                        acc.violation("decode-aliases-earlier-result", f"a schedule record with day mask {mask:02x}: after the caller emptied the set it was handed, the next record "
                                      f"with that mask parses to {sorted(again)}, want {sorted(want)}", {"mask": mask})
                except Exception as exc:
                    acc.violation("decode-raised", f"a schedule record with day mask {mask:02x}: {type(exc).__name__}: {exc}", {"mask": mask})
            for mask in range(0, 256, 2):
                acc.ev()
                rec = (b"%02x" % 3) + b"01" + (b"%02x" % mask) + b"00" * 13
                want = {n_ for n_, b_ in BITS.items() if mask & b_}
                try:
                    got = {m.name for m in _parser.ScheduleParser(rec).get_days()}
                    if got != want:
                        acc.violation("decode-wrong-set", f"a schedule record with day mask {mask:02x} parses to {sorted(got)}, want {sorted(want)}", {"mask": mask})
                except Exception as exc:
                    acc.violation("decode-raised", f"a schedule record with day mask {mask:02x}: {type(exc).__name__}: {exc}", {"mask": mask})
            self.dec_rec.drain()
        elif kind == "empty":
            for arg in (set(), frozenset(), [], ()):
                self._encode_rejects(acc, arg, f"empty {type(arg).__name__}")

    def finish(self, acc, ctx):
        acc.count("contract_evaluations_encode", self.enc_rec.evaluations)
        acc.count("contract_evaluations_decode", self.dec_rec.evaluations)
        acc.count("passes_optimised_interpreter" if not __debug__ else "passes_normal_interpreter")
        if __debug__ and (self.enc_rec.evaluations == 0 or self.dec_rec.evaluations == 0):
            acc.inconclusive_because("a C12 contract was never evaluated")


    def thread_pairs(self, ctx):
        from ..monitors.threadops import expect

        D, t = self.Days, self.tools
        sa, sb = {D.MONDAY, D.SUNDAY}, [D.TUESDAY, D.WEDNESDAY, D.FRIDAY]
        enc = lambda names: f"{mask_of(names):02x}"
        # (the preempting call of the first pair needs every day: whatever is built lazily at first use must be complete for it)
        return [("decode(0x02) || decode(0xfe)", lambda: t.bit_summary_to_days(0x02), lambda: t.bit_summary_to_days(0xFE), expect({D.MONDAY}), expect(set(D))),
                ("decode(0x54) || decode(0x54)", lambda: t.bit_summary_to_days(0x54), lambda: t.bit_summary_to_days(0x54),
                 expect({D.TUESDAY, D.THURSDAY, D.SATURDAY}), expect({D.TUESDAY, D.THURSDAY, D.SATURDAY})),
                ("decode(0x08) || decode(0x02)", lambda: t.bit_summary_to_days(0x08), lambda: t.bit_summary_to_days(0x02), expect({D.WEDNESDAY}), expect({D.MONDAY})),
                ("encode(set) || encode(list)", lambda: t.weekdays_to_hexadecimal(sa), lambda: t.weekdays_to_hexadecimal(sb),
                 expect(enc(["MONDAY", "SUNDAY"])), expect(enc(["TUESDAY", "WEDNESDAY", "FRIDAY"])))]


PROP = C12()
