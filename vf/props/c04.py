"""C04 - the signature is the protocol's double CRC-16 for every byte string.

Monitor: an icontract postcondition on the real sign_packet_with_crc_key judges
every call against the bitwise reference CRC; the driver feeds exhaustive short
strings, single-bit flips of every reference frame, random strings up to 4 KiB
in three hex spellings, and 15 classes of invalid hex.
"""

from binascii import unhexlify

from .. import env
from ..monitors import contracts
from ..prop import Prop
from ..ref import crc, frames
from ..selftest import DEV, KEY, SESSION, TS, crc_and_frames

FRAME_KINDS = [
    ("login", {}), ("login2", {}), ("get_state", {}), ("get_state2", {}),
    ("control", {"on": True, "timer_s": 5400}), ("set_auto_shutdown", {"seconds": 7200}),
    ("set_name", {"name": "my device cool name"}), ("get_schedules", {}),
    ("delete_schedule", {"slot": 3}),
    ("create_schedule", {"mask": 0x54, "start": 1_700_000_000, "end": 1_700_003_600}),
    ("breeze_command", {"payload": bytes(4) + b"NECX|26|32|15,15|15,40|15|T00BE|30|01|ABAB[30]|B24D1FE048B7"}),
    ("breeze_update", {"state": 1, "mode": 4, "target": 24, "fan": 2, "swing": 1}),
    ("stop", {}), ("set_position", {"position": 57}),
]

INVALID = [
    ("odd-length", lambda r: "abc"),
    ("odd-length-long", lambda r: "0" * (2 * r.randrange(1, 300) + 1)),
    ("non-hex-g", lambda r: "0g"),
    ("non-hex-inside", lambda r: "00" * r.randrange(1, 50) + "zz" + "00" * r.randrange(0, 50)),
    ("space-separated", lambda r: "fe f0"),
    ("leading-space", lambda r: " fef0"),
    ("trailing-newline", lambda r: "fef0\n"),
    ("0x-prefix", lambda r: "0xfef0"),
    ("minus-sign", lambda r: "-1fe"),
    ("arabic-indic-digits", lambda r: "٣٣"),
    ("fullwidth-digits", lambda r: "１２"),
    ("plain-text", lambda r: "just a regular string"),
    ("plain-text-even", lambda r: "just a regular strin"),
    ("nul-char", lambda r: "00\x0000"),
    ("underscore", lambda r: "fe_f0a"),
    # the same faults at the other parity (an odd-length pre-check must not be the only guard)
    ("two-spaces-inside", lambda r: "fe  f0"),
    ("spaces-around", lambda r: " fef0 "),
    ("trailing-crlf", lambda r: "fef0a5" * r.randrange(1, 20) + "\r\n"),
    ("only-whitespace", lambda r: "  "),
    ("tabs-between-bytes", lambda r: "fe\tf0\t"),
    ("grouped-with-spaces-even", lambda r: " ".join(["fef0"] * 3) ),
    ("non-hex-pair", lambda r: "00" * r.randrange(0, 30) + "g0" + "00" * r.randrange(0, 30)),
    ("unicode-hex-lookalike-pair", lambda r: "ａｂ"),
    ("plus-sign", lambda r: "+1"),
    ("0x-prefix-even", lambda r: "0xfe"),
    # long inputs whose fault sits far from the start (anything that works through the text in blocks meets it late)
    ("long-valid-then-zz", lambda r: r.randbytes(r.randrange(600, 2100)).hex() + "zz"),
    ("long-odd-length", lambda r: r.randbytes(r.randrange(600, 2100)).hex() + "a"),
    ("long-with-one-bad-digit-in-the-middle", lambda r: (lambda h: h[: len(h) // 2 | 1] + "g" + h[(len(h) // 2 | 1) + 1:])(r.randbytes(r.randrange(700, 1500)).hex())),
    ("long-trailing-newline", lambda r: r.randbytes(r.randrange(600, 1500)).hex() + "\n"),
]
# not strings at all: whatever they do, the next valid call must be right
NON_STR = [("bytes", lambda r: b"fef0"), ("bytearray", lambda r: bytearray(b"fef0a5")), ("memoryview", lambda r: memoryview(b"00")),
           ("none", lambda r: None), ("int", lambda r: 0xFEF0), ("list", lambda r: ["fe", "f0"])]


def _post(rec):
    def signature_is_double_crc(hex_packet, result):
        rec.evaluations += 1
        try:
            p = unhexlify(hex_packet)
            want = p + crc.sign(p, fast=(len(p) > 64))
            if not isinstance(result, str):
                rec.fail("result-not-str", {"p": hex_packet[:200], "type": type(result).__name__})
            elif result[: len(hex_packet)] != hex_packet:
                rec.fail("prefix-altered", {"p": hex_packet[:200], "result": result[:220]})
            elif len(result) != len(hex_packet) + 8 or unhexlify(result) != want:
                rec.fail("signature-mismatch", {"p": hex_packet[:200], "got": result[len(hex_packet):],
                                                "want": want[-4:].hex()})
        except Exception as exc:  # the monitor itself must never abort the run
            rec.fail("monitor-error", repr(exc))
        return True

    return signature_is_double_crc


class C04(Prop):
    id = "C04"
    tour_every = 5
    level = "exploration"
    technique = "runtime contract (icontract postcondition vs bitwise reference CRC) on exhaustive short strings, bit-flipped frames and random strings"
    rule = ("inputs: all byte strings of length 0..2 (exhaustive, disjoint over shards), every single-bit flip "
            "of 14 reference frames, random strings of 3..4096 bytes in lower/upper/mixed hex spelling (every input re-signed in the other spellings right after), 25 invalid "
            "classes at both length parities and 6 non-string inputs, each followed by a judged valid call; distinct = distinct input byte string x spelling; non-trivial = every input (each is judged "
            "against the independent CRC)")
    assumptions = ["vf/ref/crc.py bitwise CRC-16/CCITT is the protocol's CRC (pinned by the 8 signed literals of the repo's tests)"]
    level_text = ("Every call of the real signer in the run is judged by a postcondition against an independent bitwise CRC: "
                  "complete for all 65,793 strings of length 0..2 and for every single-bit flip of 14 reference frames, sampled "
                  "(seeded) for longer strings; held-on-observed, not a proof for all lengths.")
    level_note = "trusts vf/ref/crc.py (pinned to the 8 signed literals in the repo tests), CPython, icontract"
    anchors = ["aioswitcher.device.tools:sign_packet_with_crc_key"]
    min_evaluations = {"quick": 60_000, "thorough": 400_000}
    budget_s = {"quick": 300, "thorough": 600}

    def selftest(self):
        crc_and_frames()

    async def setup(self, ctx):
        self.rec = contracts.attach_post(
            "aioswitcher.device.tools:sign_packet_with_crc_key", _post,
            aliases=["aioswitcher.api:sign_packet_with_crc_key"])
        import aioswitcher.device.tools as tools

        self.tools = tools

    def cases(self, tier, seed, shard, nshards):
        # exhaustive part: lengths 0, 1 on shard 0; length 2 split by first byte
        if shard == 0:
            yield {"kind": "exh01"}
            yield {"kind": "invalid", "seed": seed}
        for hi in range(shard, 256, nshards):
            yield {"kind": "exh2", "hi": hi}
        for i, (k, a) in enumerate(FRAME_KINDS):
            if i % nshards == shard:
                yield {"kind": "flip", "frame": i}
        n_batches = {"quick": 64, "thorough": 6400}[tier]
        for b in range(shard, n_batches, nshards):
            yield {"kind": "random", "seed": f"{seed}/{b}", "n": 320}

    def _call(self, acc, hexstr, tag):
        """Call the real (contract-wrapped) function twice; judge determinism here."""
        sign = self.tools.sign_packet_with_crc_key
        acc.ev()
        self.ntouch = getattr(self, "ntouch", 0) + 1
        if self.ntouch % 23 == 0 and len(hexstr) <= 64:
            # an application does more with one string than sign it: it has passed through the library's other small functions
            from .. import tour

            tour.touch(hexstr)
            acc.count("inputs_that_went_through_the_other_tools_first")
        try:
            r1 = sign(hexstr)
            r2 = sign(hexstr)
        except Exception as exc:
            acc.violation("valid-hex-raised", f"{type(exc).__name__} on valid hex ({tag})", {"p": hexstr[:200]})
            return
        if isinstance(r1, str) and len(hexstr) <= 1200 and not tag.startswith("signed-once"):
            # a frame captured from the wire is a byte string like any other: signing it appends four more bytes
            self._call(acc, r1, "signed-once " + tag[:60])
            acc.count("already_signed_inputs")
        if r1 != r2:
            acc.violation("nondeterministic", f"two calls differ ({tag})", {"p": hexstr[:200], "r1": r1[-8:], "r2": r2[-8:]})
        for mech, detail in self.rec.drain():
            acc.violation(mech, f"postcondition failed ({tag})", detail)
        self.ncalls = getattr(self, "ncalls", 0) + 1
        if self.ncalls % 8 == 0 and isinstance(r1, str):
            # the same string handed over in the other ways Python allows: by keyword, through functools.partial, as an instance of a
            # str subclass (a str whose str() shows something else, a member of a str-valued Enum)
            import enum
            import functools

            class Shown(str):
                def __str__(self):
                    return "<frame>"

                __format__ = lambda self, spec: "<frame>"

            forms = {
                "keyword": lambda: sign(hex_packet=hexstr),
                "partial-keyword": lambda: functools.partial(sign, hex_packet=hexstr)(),
                "str-subclass": lambda: sign(Shown(hexstr)),
                "str-enum-member": lambda: sign(enum.Enum("Frame", {"LOGIN": hexstr}, type=str).LOGIN),
            }
            for form, fn in forms.items():
                acc.ev()
                acc.count(f"call_form_{form}")
                try:
                    rf = fn()
                except Exception as exc:
                    acc.violation(f"valid-hex-raised:{form}", f"{type(exc).__name__}: {exc} when the valid hex string is passed as {form} ({tag})", {"p": hexstr[:200]})
                    continue
                if not isinstance(rf, str) or str.__str__(rf) != str.__str__(r1):
                    acc.violation(f"result-depends-on-call-form:{form}", f"passed as {form} the result is {str(rf)[:60]!r}..., passed plainly {r1[:60]!r}... ({tag})",
                                  {"p": hexstr[:200], "form": form})
            self.rec.drain()
        # the same bytes in the other spellings, right after: the result may not depend on what was signed before
        for other in (hexstr.upper(), hexstr.lower(), hexstr.swapcase()):
            if other == hexstr:
                continue
            acc.ev()
            acc.count("respelled_after_first_spelling")
            try:
                r3 = sign(other)
            except Exception as exc:
                acc.violation("valid-hex-raised", f"{type(exc).__name__} on respelled valid hex ({tag})", {"p": other[:200]})
                continue
            for mech, detail in self.rec.drain():
                acc.violation(mech + ":after-other-spelling", f"postcondition failed for a second spelling of bytes already signed ({tag})",
                              {"first": hexstr[:120], "second": other[:120], "detail": detail})

    def run_case(self, case, acc, ctx):
        kind = case["kind"]
        if kind == "exh01":
            self._call(acc, "", "len0")
            acc.distinct()
            for b in range(256):
                self._call(acc, f"{b:02x}", "len1")
                acc.distinct()
            acc.sample({"kind": "exhaustive", "input": "00..ff", "observed": self.tools.sign_packet_with_crc_key("a5")})
        elif kind == "exh2":
            hi = case["hi"]
            for lo in range(256):
                self._call(acc, f"{hi:02x}{lo:02x}", "len2")
            acc.distinct(256)
        elif kind == "flip":
            k, a = FRAME_KINDS[case["frame"]]
            f = frames.build(k, SESSION, TS, DEV, KEY, a)[:-4]
            for bit in range(len(f) * 8):
                g = bytearray(f)
                g[bit // 8] ^= 1 << (bit % 8)
                self._call(acc, bytes(g).hex(), f"flip {k} bit {bit}")
            acc.distinct(len(f) * 8)
            acc.count("bit_flips", len(f) * 8)
        elif kind == "random":
            r = env.rng("C04", case["seed"])
            for i in range(case["n"]):
                n = int(2 ** r.uniform(1.6, 12)) if i % 4 else r.randrange(3, 64)
                raw = r.randbytes(min(n, 4096))
                if i % 8 == 5:
                    # byte strings that start or end the way the protocol's own frames and templates do (magic, zeroed or
                    # placeholder length word, terminator, key padding), followed by anything
                    head = r.choice(["fef0", "fef00000", "fef00000" + "0232", "fef05d00", "fef0" + len(raw).to_bytes(2, "little").hex(),
                                     "fef0" + (len(raw) + 8).to_bytes(2, "little").hex(), "f0fe", "0000", "3030"])
                    raw = bytes.fromhex(head) + raw
                    if r.random() < 0.3:
                        raw += bytes.fromhex(r.choice(["f0fe", "30" * 32, "00000000"]))
                    acc.count("inputs_that_look_like_protocol_frames")
                spelling = i % 3
                h = raw.hex()
                if spelling == 1:
                    h = h.upper()
                elif spelling == 2:
                    h = "".join(c.upper() if r.random() < 0.5 else c for c in h)
                self._call(acc, h, f"random len {len(raw)} spelling {spelling}")
                acc.sig(env.sig(raw, spelling))
                acc.count(f"spelling_{('lower', 'upper', 'mixed')[spelling]}")
                if i == 0:
                    acc.sample({"kind": "random", "len": len(raw), "input": h[:48] + "...", "spelling": spelling})
        elif kind == "invalid":
            r = env.rng("C04", "invalid", case["seed"])
            for rep in range(20):
                for name, gen in INVALID + NON_STR:
                    s = gen(r)
                    acc.ev()
                    acc.sig(env.sig("invalid", name, repr(s)[:120]))
                    rejected = False
                    try:
                        out = self.tools.sign_packet_with_crc_key(s)
                    except Exception:
                        acc.count("invalid_rejected")
                        rejected = True
                    self.rec.drain()
                    if not rejected and isinstance(s, str):
                        acc.violation("invalid-hex-accepted", f"input class {name} produced output", {"input": s[:80], "output": str(out)[:80]})
                    # a refused call must leave nothing behind: the very next valid call is judged as usual
                    probe = r.randbytes(r.randrange(1, 90)).hex()
                    self._call(acc, probe, f"first valid call after a refused {name} input")
                    acc.count("valid_calls_right_after_refused_input")
            acc.sample({"kind": "invalid", "classes": [n for n, _ in INVALID]})

    def finish(self, acc, ctx):
        acc.count("contract_evaluations", self.rec.evaluations)
        if __debug__ and self.rec.evaluations == 0 and acc.evaluations > 0:
            acc.inconclusive_because("postcondition on sign_packet_with_crc_key was never evaluated")


    def thread_pairs(self, ctx):
        from ..monitors.threadops import expect

        sign = self.tools.sign_packet_with_crc_key
        pa = frames.build("login", SESSION, TS, DEV, KEY, {})[:-4].hex()
        pb = frames.build("set_position", SESSION, TS, DEV, KEY, {"position": 57})[:-4].hex()
        want = lambda p: p + crc.sign(unhexlify(p)).hex()
        short_a, short_b = "a5", "00ff10"
        return [("sign(frame A) || sign(frame B)", lambda: sign(pa), lambda: sign(pb), expect(want(pa)), expect(want(pb))),
                ("sign(p) || sign(p)", lambda: sign(pa), lambda: sign(pa), expect(want(pa)), expect(want(pa))),
                ("sign(short) || sign(short)", lambda: sign(short_a), lambda: sign(short_b), expect(want(short_a)), expect(want(short_b)))]


PROP = C04()
