"""C02 - each operation's frame encodes exactly that operation and the caller's arguments.

The command frames captured by the wire spy / fake device are compared byte for
byte with the frame the reference encoder builds for (operation, arguments,
session id from that login reply, frozen timestamp, configured device id).
Arguments outside the accepted domain must raise without a command frame.
"""

from itertools import combinations

from .. import env, gen, ops, tcpwork
from ..fakes import tcp_device as td
from ..monitors import insitu
from ..prop import Prop
from ..ref import clock, frames
from ..selftest import crc_and_frames
from .c11 import instants_for

ALL_DAY_SETS = [list(c) for n in range(0, 8) for c in combinations(ops.DAY_NAMES, n)]  # 128


def compare(acc, rec, t, dev_id, key, session, ts, world):
    """Judge one OpRecord against the reference. Returns a coarse signature of the case."""
    op, args = rec.op, rec.args
    exp = ops.expect(op, args, world)
    did, kb = bytes.fromhex(dev_id), bytes.fromhex(key)
    short = args if len(str(args)) < 300 else str(args)[:300]
    if exp[0] == "unspecified":
        acc.skip_unspecified()
        return None
    login_kind = ops.LOGIN_KIND[t]
    want_login = frames.build(login_kind, bytes(4), ts, did, kb)
    if not rec.writes:
        acc.violation(f"no-login-frame:{op}", f"{op}{short} wrote nothing", {"op": op, "args": short})
        return None
    if rec.writes[0] != want_login:
        acc.violation(f"frame-differs:{login_kind}", f"{op}: login frame differs: {frames.diff(rec.writes[0], want_login)}",
                      {"op": op, "got": rec.writes[0].hex(), "want": want_login.hex()})
    cmds = rec.writes[1:]
    if exp[0] == "reject":
        if rec.outcome != "raise":
            acc.violation(f"rejected-args-returned:{op}", f"{op}{short} ({exp[1]}) did not raise", {"op": op, "args": short, "why": exp[1]})
        if cmds:
            acc.violation(f"rejected-args-wrote-command:{op}", f"{op}{short} ({exp[1]}) wrote {len(cmds)} command frame(s)",
                          {"op": op, "args": short, "why": exp[1], "frames": [c.hex() for c in cmds]})
        acc.count("rejected_cases")
        return ("reject", op, exp[1])
    alts = [exp[1]] if exp[0] == "ok" else exp[1]
    if rec.outcome == "raise":
        acc.violation(f"accepted-args-raised:{op}", f"{op}{short} raised {type(rec.exc).__name__}: {rec.exc}",
                      {"op": op, "args": short, "exc": repr(rec.exc)})
        return None
    wants = [[frames.build(k, session, ts, did, kb, a) for k, a in alt] for alt in alts]
    if cmds not in wants:
        want = wants[0]
        if len(cmds) != len(want):
            acc.violation(f"frame-count:{op}", f"{op}{short} wrote {len(cmds)} command frames, want {len(want)}",
                          {"op": op, "args": short, "got": [c.hex() for c in cmds]})
        else:
            for g, w, (k, _) in zip(cmds, want, alts[0]):
                if g != w:
                    d = frames.diff(g, w)
                    region = d[0].split(" differs")[0] if d else "?"
                    acc.violation(f"frame-differs:{k}:{region}", f"{op}{short}: {'; '.join(d)}",
                                  {"op": op, "args": short, "got": g.hex(), "want": w.hex(), "diff": d})
    acc.count("accepted_cases")
    return ("ok", op, tuple(len(w) for w in wants[0]))


class C02(Prop):
    id = "C02"
    level = "exploration"
    technique = "wire monitor + independent reference encoder: byte-for-byte comparison of every command frame; raise-without-command for rejected arguments"
    rule = ("case i = one type-1 connection (12 operations) or one shutter connection (5 operations) under a frozen virtual clock and a "
            "switched host zone; marginals are swept by i (position i%101, slot i%8, day set i%128, start minute i%1440, end minute "
            "(7i+11)%1440) and the rest drawn from hostile generators (names 0..40 chars in 5 scripts, timers around 2^32/60, timedeltas "
            "around both range ends, malformed clocks, duplicate days); distinct = (operation, argument value class); non-trivial = "
            "every operation carrying an argument")
    level_text = ("Held-on-observed: every command frame of every type-1 and shutter operation is compared with an independently encoded "
                  "reference frame (operation code, argument encoding, session id, timestamp, device id, fixed bytes), over swept and "
                  "hostile argument values; rejected arguments must raise with at most the login frame written.")
    level_note = "trusts vf/ref/frames.py (8 templates pinned by the repo's signed literals, the rest transcribed from the pinned protocol), zoneinfo"
    assumptions = ["fixed bytes of the type-2 and schedule frames are a golden transcription of the pinned protocol",
                   "unspecified inputs (section 2.5 of DESIGN.md) are skipped and counted"]
    anchors = ["aioswitcher.api:SwitcherType1Api.control_device", "aioswitcher.api:SwitcherType1Api.set_auto_shutdown",
               "aioswitcher.api:SwitcherType1Api.set_device_name", "aioswitcher.api:SwitcherType1Api.delete_schedule",
               "aioswitcher.api:SwitcherType1Api.create_schedule", "aioswitcher.api:SwitcherType2Api.set_position",
               "aioswitcher.api:SwitcherApi.stop", "aioswitcher.device.tools:timedelta_to_hexadecimal_seconds",
               "aioswitcher.device.tools:string_to_hexadecimale_device_name", "aioswitcher.schedule.tools:time_to_hexadecimal_timestamp"]
    min_evaluations = {"quick": 30_000, "thorough": 300_000}
    budget_s = {"quick": 300, "thorough": 900}

    def worker_pyflags(self, shard, nshards=1):
        return ["-O"] if nshards > 1 and shard == nshards - 1 else []   # one worker in an optimised interpreter: argument checks must not be assertions

    def selftest(self):
        crc_and_frames()

    async def setup(self, ctx):
        self.recs = insitu.attach_all()
        self.rig = tcpwork.Rig(ctx["shard"])
        self.dev = await self.rig.device()
        self.instants = {}

    async def teardown(self, ctx):
        await self.rig.close()

    def cases(self, tier, seed, shard, nshards):
        n = {"quick": 11_520, "thorough": 576_000}[tier]
        for i in range(shard, n, nshards):
            yield {"i": i, "seed": seed}

    def _now_for(self, zone, r, seed):
        if zone not in self.instants:
            self.instants[zone] = instants_for(zone, env.rng("C02", seed, zone), 40)
        return r.choice(self.instants[zone])

    async def run_case(self, case, acc, ctx):
        i = case["i"]
        r = env.rng("C02", case["seed"], i)
        t = 2 if env.sig("api-type", i) % 4 == 3 else 1   # not a function of i mod (number of shards): every worker sees both APIs
        dev_id, key = gen.device_id(r), gen.device_key(r)
        zone = env.ZONES[i % len(env.ZONES)]
        now = self._now_for(zone, r, case["seed"]) + r.choice([0.0, 0.3, 0.7])
        from ..ref import replies as _rp

        recs = [_rp.schedule_record(k2, r.choice([0, 2, 0x54, 0xFE]), 1_700_000_000 + k2 * 3600, 1_700_003_600 + k2 * 3600) for k2 in range(r.randrange(0, 9))]
        self.dev.responder = td.auto_responder(family="shutter", rnd=r, schedule_records=recs)
        clock.set_zone(zone)
        world = {"zone": zone, "now": now}
        if t == 1:
            plan = [("turn_on", {"minutes": 0}), ("turn_off", {}), ("turn_off", None), ("turn_on_timer", None), ("turn_on_timer", None),
                    ("set_auto_shutdown", None), ("set_auto_shutdown", None), ("set_device_name", None), ("set_device_name", None),
                    ("get_schedules", {}), ("delete_schedule", {"slot": str(i % 8)}),
                    ("create_schedule", {"start": f"{(i % 1440) // 60:02d}:{(i % 1440) % 60:02d}",
                                         "end": f"{((7 * i + 11) % 1440) // 60:02d}:{((7 * i + 11) % 1440) % 60:02d}",
                                         "days": ALL_DAY_SETS[i % 128], "days_form": ("set", "list", "tuple")[i % 3]}),
                    ("create_schedule", None),
                    # twice with the library's own default for days: a default that was written into would show on the second call
                    ("create_schedule", {"start": "06:00", "end": "07:30", "days": [], "days_form": "default"}),
                    ("create_schedule", {"start": f"{(i % 1440) // 60:02d}:{(i % 1440) % 60:02d}", "end": "23:59", "days": [], "days_form": "default"}),
                    ("get_state", {})]
        else:
            plan = [("stop", {}), ("set_position", {"position": i % 101}), ("get_shutter_state", {}),
                    ("set_position", None), ("stop", {})]
        # the order of operations on one connection is random and some come round a second time: what one operation
        # leaves behind on the object must not show in the next
        r.shuffle(plan)
        plan += [plan[k2] for k2 in (0, len(plan) // 2)]
        with clock.virtual_time(now):
            cl = await self.rig.connect(self.dev, t, dev_id, key)
            try:
                for op, args in plan:
                    if args is None:
                        args = ops.gen_args(op, r, world, hostile=True)
                    n_sessions = len(cl.conn.sessions)
                    rec = await cl.run(op, args)
                    acc.ev()
                    acc.count(f"op_{op}")
                    issued = cl.conn.sessions[n_sessions:]
                    if len(issued) != 1:
                        acc.violation(f"login-count:{op}", f"{op} triggered {len(issued)} logins", {"op": op})
                        continue
                    while ops.MUTATED:
                        what, was, now_is = ops.MUTATED.pop()
                        acc.violation("caller-argument-mutated", f"{op}: the library changed the caller's {what} from {was} to {now_is}", {"op": op, "args": args})
                    s = compare(acc, rec, t, dev_id, key, issued[0], int(round(now)), world)
                    if s is not None and args:
                        acc.sig(env.sig(s, self._argclass(op, args)))
                if t == 1:
                    # the host zone changes while the process lives, to one easily mistaken for the first (same offset right now,
                    # or the same abbreviations): the same schedule requests again are encoded in the new zone's local time
                    alike = clock.confusable(zone, now, env.ZONES)
                    if alike:
                        z2 = alike[i % len(alike)]
                        clock.set_zone(z2)
                        world2 = {"zone": z2, "now": now}
                        for op, args in [(o, a) for o, a in plan if o == "create_schedule" and a is not None][:3]:
                            n_sessions = len(cl.conn.sessions)
                            rec = await cl.run(op, args)
                            acc.ev()
                            acc.count("create_schedule_again_after_a_zone_change")
                            issued = cl.conn.sessions[n_sessions:]
                            ops.MUTATED.clear()
                            if len(issued) == 1:
                                compare(acc, rec, t, dev_id, key, issued[0], int(round(now)), world2)
                        clock.set_zone(zone)
                for name, rc in self.recs.items():
                    rc.drain()  # judged by C01 / C12
            finally:
                await cl.close()
        if i % 500 == 1:
            acc.sample({"api_type": t, "zone": zone, "virtual_now": now, "device_id": dev_id,
                        "plan": [(op, a) for op, a in plan if a][:4], "last_command_frame": cl.spy.writes[-1].hex()})

    @staticmethod
    def _argclass(op, a):
        if op == "set_device_name":
            return (len(a["name"]), len(a["name"].encode()), a["name"].isascii())
        if op == "turn_on_timer":
            return a["minutes"]
        if op == "set_auto_shutdown":
            return a["seconds"]
        if op == "create_schedule":
            return (a["start"], a["end"], tuple(a["days"]), a.get("days_form"))
        return tuple(sorted((k, str(v)) for k, v in a.items()))


    def thread_pairs(self, ctx):
        import datetime
        import struct

        import aioswitcher.device.tools as t

        from ..monitors.threadops import api_pair, expect

        clock.set_zone("UTC")
        name = lambda s: s.encode().hex() + "00" * (32 - len(s.encode()))
        secs = lambda n: struct.pack("<I", n).hex()
        a = {"type": 1, "id": "a1b2c3", "key": "18", "op": "set_device_name", "args": {"name": "Boiler up"}}
        b = {"type": 1, "id": "d4e5f6", "key": "27", "op": "set_device_name", "args": {"name": "חדר שינה של ההורים"[:14]}}
        c = {"type": 1, "id": "0a0b0c", "key": "03", "op": "turn_on_timer", "args": {"minutes": 30}}
        d = {"type": 1, "id": "0d0e0f", "key": "04", "op": "set_auto_shutdown", "args": {"seconds": 2 * 3600 + 30 * 60}}
        return [("name field(A) || name field(B)", lambda: t.string_to_hexadecimale_device_name("Boiler up"), lambda: t.string_to_hexadecimale_device_name("x" * 31),
                 expect(name("Boiler up")), expect(name("x" * 31))),
                ("timer field(30) || timer field(90)", lambda: t.minutes_to_hexadecimal_seconds(30), lambda: t.minutes_to_hexadecimal_seconds(90), expect(secs(1800)), expect(secs(5400))),
                ("auto-shutdown field || auto-shutdown field", lambda: t.timedelta_to_hexadecimal_seconds(datetime.timedelta(hours=2, minutes=30)),
                 lambda: t.timedelta_to_hexadecimal_seconds(datetime.timedelta(hours=23, minutes=59)), expect(secs(9000)), expect(secs(86340))),
                api_pair("set_device_name(A) (one thread) || set_device_name(B) (another thread)", a, b),
                api_pair("timer || auto shutdown", c, d)]


PROP = C02()
