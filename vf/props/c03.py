"""C03 - every operation logs in first and binds its commands to that login's session.

Per-connection ordered frame log + operation brackets + the session ids the fake
device issued (fresh and unique per login, so a stale or foreign id is
unmistakable).  The virtual clock advances on every client write, so every
login reads a unique timestamp and a leaked clock reading is unmistakable too.
With two API instances the device holds every reply and a seeded scheduler
decides which blocked client is released next.
"""

import asyncio
import time

from .. import env, gen, ops, tcpwork
from ..fakes import tcp_device as td
from ..prop import Prop
from ..ref import clock, frames
from ..selftest import crc_and_frames

BENIGN = {
    "login": {}, "get_state": {}, "turn_on": {"minutes": 0}, "turn_on_timer": {"minutes": 90}, "turn_off": {},
    "set_auto_shutdown": {"seconds": 7200}, "set_device_name": {"name": "my device"}, "get_schedules": {},
    "delete_schedule": {"slot": "2"}, "create_schedule": {"start": "13:00", "end": "14:30", "days": ["MONDAY", "FRIDAY"]},
    "login2": {"device_type": "RUNNER"}, "stop": {}, "set_position": {"position": 42}, "get_shutter_state": {},
    "get_breeze_state": {},
}
BREEZE_SHAPES = {
    "breeze_main": ({"state": "ON", "mode": "COOL", "target": 24}, "ordinary"),
    "breeze_swing_only": ({"swing": "ON"}, "special"),
    "breeze_main_swing": ({"mode": "HEAT", "swing": "OFF", "fan": "LOW"}, "special"),
    "breeze_update": ({"state": "OFF", "update_state": True}, "ordinary"),
}
KINDS_T1 = list(ops.T1_OPS)
KINDS_T2 = ["login2", "stop", "set_position", "get_shutter_state", "get_breeze_state"] + list(BREEZE_SHAPES)


def step_of(kind: str):
    if kind in BREEZE_SHAPES:
        a, remote = BREEZE_SHAPES[kind]
        return {"op": "control_breeze", "args": dict(a), "remote": remote, "kind": kind}
    return {"op": kind, "args": dict(BENIGN[kind]), "remote": "ordinary", "kind": kind}


class C03(Prop):
    id = "C03"
    level = "exploration"
    technique = "offline checker over the per-connection frame log and operation brackets; unique session ids and unique clock readings; seeded reply scheduler for two interleaved API instances"
    rule = ("histories: all sequences of length <= 2 over 10 type-1 and 9 type-2 operation kinds (exhaustive, both tiers), random "
            "histories of length 3..20 with hostile arguments, and two-instance histories whose replies are released by a seeded "
            "scheduler; distinct = (operation-kind sequence per instance, release order); non-trivial = histories with >= 2 operations "
            "or two instances")
    level_text = ("Held-on-observed: every operation's frame group (login first, fixed number and kinds of command frames) and every "
                  "command frame's session id, device id and timestamp are checked against what that very login was answered with, "
                  "over exhaustive short histories, random long ones and scheduler-driven interleavings of two instances.")
    level_note = "trusts vf/ref/frames.py, the fake device's issue log, time_machine; cooperative scheduling only (asyncio has no preemption)"
    assumptions = ["interleavings exist only at await points; they are driven by holding replies, not by threads",
                   "an operation cancelled in mid-exchange is itself not judged; the operations after it (on a fresh connection of the same object) are"]
    anchors = ["aioswitcher.api:SwitcherApi._login", "aioswitcher.api:SwitcherType2Api.control_breeze_device",
               "aioswitcher.api:SwitcherType2Api._control_breeze_swing_device", "aioswitcher.api:SwitcherType2Api._get_breeze_state",
               "aioswitcher.device.tools:current_timestamp_to_hexadecimal"]
    min_evaluations = {"quick": 10_000, "thorough": 150_000}
    budget_s = {"quick": 300, "thorough": 900}

    def selftest(self):
        crc_and_frames()

    async def setup(self, ctx):
        self.rig = tcpwork.Rig(ctx["shard"])
        self.dev = await self.rig.device()
        r = env.rng("C03", "remotes")
        self.irsets = {"ordinary": gen.irset(r, toggle=False, special=False, density=1.0, long_codes=False),
                       "special": gen.irset(r, toggle=True, special=True, density=1.0, long_codes=False)}
        self.remotes = {k: tcpwork.make_remote(v) for k, v in self.irsets.items()}
        clock.set_zone("UTC")

    _transitions = {}

    async def teardown(self, ctx):
        await self.rig.close()

    # ------------------------------------------------------------ case generation
    def cases(self, tier, seed, shard, nshards):
        i = 0
        # exhaustive: all histories of length <= 2
        for kinds, t in ((KINDS_T1, 1), (KINDS_T2, 2)):
            hist = [[a] for a in kinds] + [[a, b] for a in kinds for b in kinds]
            for h in hist:
                if i % nshards == shard:
                    yield {"mode": "single", "exhaustive": True, "seed": f"{seed}/x{i}",
                           "clients": [{"type": t, "steps": [step_of(k) for k in h]}]}
                i += 1
        n_rand = {"quick": 1_600, "thorough": 120_000}[tier]
        n_dual = {"quick": 2_400, "thorough": 240_000}[tier]
        for j in range(n_rand):
            if i % nshards == shard:
                yield {"mode": "single", "seed": f"{seed}/r{j}", "random": True}
            i += 1
        for j in range(n_dual):
            if i % nshards == shard:
                yield {"mode": "dual", "seed": f"{seed}/d{j}", "random": True}
            i += 1

    def _random_steps(self, r, t, n):
        steps = []
        for _ in range(n):
            if t == 1:
                op = r.choice(ops.T1_OPS)
                steps.append({"op": op, "args": ops.gen_args(op, r, {}, hostile=r.random() < 0.5), "remote": "ordinary", "kind": op})
            else:
                k = r.choice(KINDS_T2 + ["control_breeze"] * 3)
                if k == "control_breeze":
                    steps.append({"op": k, "args": ops.gen_args(k, r, {}, True), "remote": r.choice(["ordinary", "special"]), "kind": k})
                elif k in BREEZE_SHAPES:
                    steps.append(step_of(k))
                else:
                    steps.append({"op": k, "args": ops.gen_args(k, r, {}, True) or dict(BENIGN[k]), "remote": "ordinary", "kind": k})
        return steps

    # ------------------------------------------------------------ driving
    async def run_case(self, case, acc, ctx):
        r = env.rng("C03", case["seed"])
        if case.get("random"):
            n_clients = 2 if case["mode"] == "dual" else 1
            case = dict(case, clients=[{"type": r.choice([1, 2]), "steps": None} for _ in range(n_clients)])
            for c in case["clients"]:
                n_steps = r.randrange(3, 21) if n_clients == 1 else r.randrange(2, 9)
                if n_clients == 1 and r.random() < 0.01:
                    n_steps = 260      # a long-lived connection: counters, buffers and tables inside the client get time to fill up
                c["steps"] = self._random_steps(r, c["type"], n_steps)
            if n_clients == 2 and r.random() < 0.5:
                # the longest exchange there is (login, state, command, separate swing command) on one instance while the other one
                # logs in and out: four frames are four chances for something foreign to slip in
                c0 = case["clients"][r.randrange(2)]
                if c0["type"] != 2:
                    c0["type"] = 2
                    c0["steps"] = self._random_steps(r, 2, len(c0["steps"]))
                for _ in range(2):
                    c0["steps"].insert(r.randrange(len(c0["steps"]) + 1), step_of("breeze_main_swing"))
        ids = set()
        for c in case["clients"]:
            while True:
                did, key = gen.device_id(r).lower(), gen.device_key(r).lower()
                if did not in ids:
                    ids.add(did)
                    break
            c["id"], c["key"] = did, key
        reported = {"temp_tenths": 250, "state": r.choice(["ON", "OFF"]), "mode": r.choice(["AUTO", "DRY", "FAN", "COOL", "HEAT"]),
                    "target": r.randrange(16, 31), "fan": r.choice(["AUTO", "LOW", "MEDIUM", "HIGH"]), "swing": r.choice(["ON", "OFF"]),
                    "remote_id": "ELEC7001"}
        family = {}
        from ..ref import replies as _rp

        recs = [_rp.schedule_record(k2, r.choice([0, 2, 0x54, 0xFE]), 1_700_000_000 + k2 * 3600, 1_700_003_600 + k2 * 3600) for k2 in range(r.randrange(0, 9))]
        healthy_dev = td.auto_responder(thermostat=reported, family=lambda conn: family.get(conn.id, "thermostat"), rnd=r, schedule_records=recs)
        inject = {"conn": None, "at": None, "bytes": None}

        def responder(conn, idx, frame):
            if inject["conn"] is conn and idx == inject["at"] and frames.classify(frame) not in ("login", "login2"):
                inject["conn"] = None
                return inject["bytes"]
            return healthy_dev(conn, idx, frame)

        self.dev.responder = responder
        zone = r.choice(env.ZONES)
        clock.set_zone(zone)   # nothing on the wire depends on the host zone
        t0 = float(r.randrange(1_000_000, 4_000_000_000)) + r.choice([0.0, 0.2, 0.8])
        if r.random() < 0.15:
            # the hours around a change of the host zone's UTC offset (incl. the local hour that happens twice): the current
            # time on the wire is the epoch second, not something rebuilt from local wall-clock fields
            if zone not in self._transitions:
                self._transitions[zone] = clock.transitions(zone)
            if self._transitions[zone]:
                t0 = float(r.choice(self._transitions[zone]) + r.randrange(-3600, 3600)) + r.choice([0.0, 0.5])
                acc.count("histories_around_a_utc_offset_change")
        world = {"zone": "UTC", "now": t0, "reported": reported}
        choice_log = []
        with clock.virtual_time(t0) as traveller:
            # clock mode: "tick" makes every login read a unique second (a leaked reading is unmistakable);
            # "frozen" keeps all logins of all instances inside one clock second (anything keyed by the
            # timestamp alone collides); "mixed" advances only now and then
            clock_mode = ("tick", "frozen", "mixed", "tick")[r.randrange(4)] if not case.get("exhaustive") else ("tick", "frozen")[r.randrange(2)]

            def on_write(spy, data):
                if clock_mode == "tick" or (clock_mode == "mixed" and r.random() < 0.3):
                    traveller.shift(3)

            clients = []
            for c in case["clients"]:
                cl = await self.rig.connect(self.dev, c["type"], c["id"], c["key"])
                cl.spy.on_write = on_write
                clients.append(cl)
            records = [[] for _ in clients]

            # in some single-instance histories the caller gives up on one operation in mid-exchange (task cancelled, wait_for /
            # timeout expired while the device sits on reply k), reconnects and carries on: what follows is judged as usual
            cancel_plan = None
            if len(clients) == 1 and not case.get("exhaustive") and r.random() < 0.25 and len(case["clients"][0]["steps"]) >= 2:
                cancel_plan = {"at": r.randrange(len(case["clients"][0]["steps"]) - 1), "frame": r.randrange(0, 3)}

            async def cancelled_step(cl, st):
                arrived, hold = asyncio.Event(), asyncio.Event()
                base = len(cl.conn.frames)

                async def gate(conn, idx, frame):
                    if conn is cl.conn and idx - base == cancel_plan["frame"]:
                        arrived.set()
                        await hold.wait()

                self.dev.gate = gate
                task = asyncio.ensure_future(ops.call(cl.api, st["op"], st["args"], self.remotes[st["remote"]]))
                for _ in range(2000):
                    if arrived.is_set() or task.done():
                        break
                    await asyncio.sleep(0)
                was_waiting = arrived.is_set() and not task.done()
                task.cancel()
                try:
                    await task
                except BaseException:
                    pass
                hold.set()
                self.dev.gate = None
                acc.count("operations_cancelled_while_waiting_for_a_reply" if was_waiting else "operations_finished_before_the_cancel")
                # a fresh connection: the old stream may still receive the reply nobody waits for
                await cl.close()
                before = len(self.dev.conns)
                await cl.api.connect()
                for _ in range(300):
                    if len(self.dev.conns) > before:
                        break
                    await asyncio.sleep(0)
                cl.conn = self.dev.conns[-1]
                cl.spy = td.WireSpy(cl.api, on_write)

            async def run_client(idx):
                cl, c = clients[idx], case["clients"][idx]
                for sti, st in enumerate(c["steps"]):
                    if cancel_plan is not None and sti == cancel_plan["at"]:
                        family[cl.conn.id] = "shutter" if st["op"] == "get_shutter_state" else "thermostat"
                        await cancelled_step(cl, st)
                        cl.reset_at = len(records[idx])
                        continue
                    family[cl.conn.id] = "shutter" if st["op"] == "get_shutter_state" else "thermostat"
                    if len(clients) == 1 and r.random() < 0.1:
                        # the host's clock is corrected between two operations (NTP step): the next operation carries the new reading
                        traveller.shift(r.choice([-90, -3, -3600, 75]))
                        acc.count("wall_clock_steps_between_operations")
                    if len(clients) == 1 and cancel_plan is None and r.random() < 0.12:
                        # one reply of this operation (after its login) is useless: truncated, garbage, a lone zero byte; the connection
                        # stays up and the operations after it are exchanges of their own
                        inject.update(conn=cl.conn, at=len(cl.conn.frames) + r.randrange(1, 3), bytes=r.choice([b"\x00", r.randbytes(r.randrange(1, 60)), bytes(40)]))
                        st = dict(st, faulty_reply=True)
                        acc.count("operations_with_a_useless_reply_in_mid_history")
                    n_sess = len(cl.conn.sessions)
                    t_start = time.time()
                    rec = await cl.run(st["op"], st["args"], self.remotes[st["remote"]])
                    inject["conn"] = None       # a useless reply planned for this operation does not spill over into the next
                    t_end = time.time()
                    # let the device log the frames of this op before the next one starts
                    await td.settle(cl.conn, sum(len(w) for w in cl.spy.writes))
                    records[idx].append((st, rec, t_start, t_end, cl.conn.sessions[n_sess:]))

            try:
                if len(clients) == 1:
                    if cancel_plan is None and r.random() < 0.3:
                        async def slow_gate(conn, idx, frame):
                            if r.random() < 0.25:
                                await self._slow_reply(acc)
                        self.dev.gate = slow_gate
                    await run_client(0)
                else:
                    await self._interleave(r, clients, run_client, choice_log, acc)
            finally:
                self.dev.gate = None
                tcpwork.SHARED_CONTEXT = None
                for cl in clients:
                    await cl.close()
        acc.count(f"clock_mode_{clock_mode}")
        self._judge(acc, case, clients, records, world, choice_log)

    async def _slow_reply(self, acc):
        """The device takes its time: the event loop's clock jumps 30 s ahead (virtual delay, no real waiting) and the loop
        gets a few turns, so that any timer the client armed around its read has fired before the reply is sent."""
        env.idle(30.0)
        for _ in range(4):
            await asyncio.sleep(0)
        acc.count("replies_delayed_30s_virtual")

    async def _interleave(self, r, clients, run_client, choice_log, acc):
        pending = {}  # conn id -> Event

        async def gate(conn, idx, frame):
            ev = asyncio.Event()
            pending[conn.id] = ev
            await ev.wait()
            if r.random() < 0.15:
                await self._slow_reply(acc)

        self.dev.gate = gate
        if r.random() < 0.5 and asyncio.get_running_loop().get_task_factory() is None:
            # (not with eager tasks: an eager task cannot enter the context its creator is still inside)
            # an application whose task factory runs everything in ONE contextvars.Context
            import contextvars

            shared = contextvars.copy_context()
            loop = asyncio.get_running_loop()
            tcpwork.SHARED_CONTEXT = shared
            tasks = [loop.create_task(run_client(i), context=shared) for i in range(len(clients))]
            acc.count("interleaved_histories_in_one_shared_context")
        else:
            tasks = [asyncio.ensure_future(run_client(i)) for i in range(len(clients))]
        conn_name = {cl.conn.id: "AB"[i] for i, cl in enumerate(clients)}
        spins = 0
        while not all(t.done() for t in tasks):
            active = sum(1 for t in tasks if not t.done())
            if len(pending) >= active and pending:
                cid = r.choice(sorted(pending))
                choice_log.append(conn_name[cid])
                pending.pop(cid).set()
                spins = 0
            else:
                spins += 1
                await asyncio.sleep(0 if spins < 500 else 0.002)
                if spins > 3000:  # ~5 s: release whatever is there rather than hang
                    acc.count("scheduler_timeouts")
                    if pending:
                        cid = sorted(pending)[0]
                        choice_log.append(conn_name[cid].lower())
                        pending.pop(cid).set()
                        spins = 0
                    elif spins > 6000:
                        break
        for t in tasks:
            if not t.done():
                t.cancel()
                acc.inconclusive_because("interleaving scheduler: a client task never finished")
        for t in tasks:
            try:
                await t
            except asyncio.CancelledError:
                pass

    # ------------------------------------------------------------ the offline oracle
    def _judge(self, acc, case, clients, records, world, choice_log):
        all_login_ts = []
        for idx, recs in enumerate(records):
            for st, rec, t_start, t_end, issued in recs:
                if rec.writes:
                    all_login_ts.append((idx, id(rec), int.from_bytes(rec.writes[0][24:28], "little")))
        for idx, recs in enumerate(records):
            c, cl = case["clients"][idx], clients[idx]
            did, kb = bytes.fromhex(c["id"]), bytes.fromhex(c["key"])
            login_kind = ops.LOGIN_KIND[c["type"]]
            stream = []
            reset_at = getattr(cl, "reset_at", 0)
            for ri, (st, rec, t_start, t_end, issued) in enumerate(recs):
                if ri == reset_at:
                    stream = []      # a new connection began here (after a cancelled operation)
                acc.ev()
                acc.count(f"op_{st['kind']}")
                op, tag = st["op"], f"{st['kind']} (instance {'AB'[idx]})"
                stream += rec.writes
                if not rec.writes:
                    acc.violation("no-login-first", f"{tag} wrote nothing", {"op": op, "args": st["args"]})
                    continue
                first = rec.writes[0]
                ts0 = int.from_bytes(first[24:28], "little")
                want_login = frames.build(login_kind, bytes(4), ts0, did, kb)
                if first != want_login:
                    acc.violation("login-frame-wrong", f"{tag}: first frame is not this instance's login: {frames.diff(first, want_login)}",
                                  {"op": op, "got": first.hex(), "want": want_login.hex()})
                # the operation starts one loop turn after the call: another instance's write may tick the clock in between
                if not (int(round(t_start)) <= ts0 <= int(round(t_end))):
                    acc.violation("login-timestamp-not-current", f"{tag}: login carries ts {ts0}, the clock read {t_start} when the operation was called "
                                  f"and {t_end} when it came back", {"op": op, "ts": ts0, "clock": [t_start, t_end]})
                nlogins = sum(1 for w in rec.writes if frames.classify(w) in ("login", "login2"))
                if nlogins != 1 or len(issued) != 1:
                    acc.violation("login-count", f"{tag}: {nlogins} login frames written, {len(issued)} sessions issued",
                                  {"op": op, "kinds": [frames.classify(w) for w in rec.writes]})
                    continue
                sess = issued[0]
                others = {ts for (i2, rid, ts) in all_login_ts if rid != id(rec)}
                for w in rec.writes[1:]:
                    k = frames.classify(w)
                    if w[8:12] != sess:
                        acc.violation("session-not-from-this-login", f"{tag}: {k} frame carries session {w[8:12].hex()}, this login was answered {sess.hex()}",
                                      {"op": op, "frame": w.hex()[:120], "issued": sess.hex()})
                    if w[40:43] != did:
                        acc.violation("device-id-foreign", f"{tag}: {k} frame carries device id {w[40:43].hex()}, instance has {did.hex()}",
                                      {"op": op, "frame": w.hex()[:120]})
                    ts = int.from_bytes(w[24:28], "little")
                    if not (ts == ts0 or (ts0 <= ts <= int(round(t_end)) and ts not in others)):
                        acc.violation("timestamp-leak", f"{tag}: {k} frame carries ts {ts}; login read {ts0}, op window ends {t_end}",
                                      {"op": op, "ts": ts, "login_ts": ts0, "foreign": ts in others})
                if st.get("faulty_reply"):
                    continue      # how far an operation gets after a useless reply is not judged here; the operations after it are
                # number and order of frames
                w2 = dict(world, irset=self.irsets[st["remote"]])
                exp = ops.expect(op, st["args"], w2)
                got_kinds = [frames.classify(w) for w in rec.writes[1:]]
                if exp[0] == "unspecified":
                    acc.skip_unspecified()
                elif exp[0] == "reject":
                    if got_kinds:
                        acc.violation("frames-after-rejected-args", f"{tag}: rejected args yet wrote {got_kinds}", {"op": op, "args": st["args"]})
                elif exp[0] == "raise_after":
                    if len(got_kinds) != exp[1]:
                        acc.violation("frame-count", f"{tag}: want {exp[1]} command frames then an error, got {got_kinds}", {"op": op, "args": st["args"]})
                else:
                    want_kinds = [k for k, _ in (exp[1] if exp[0] == "ok" else exp[1][0])]
                    if got_kinds != want_kinds:
                        acc.violation("frame-count", f"{tag}: command frames {got_kinds}, want {want_kinds}", {"op": op, "args": st["args"]})
            # what the device saw on this connection is exactly the ops' writes, in order
            if bytes(cl.conn.raw) != b"".join(stream):
                acc.violation("conservation", f"instance {'AB'[idx]}: device received {len(cl.conn.raw)} bytes, ops wrote {len(b''.join(stream))}", {})
        n_ops = sum(len(x) for x in records)
        if n_ops >= 2 or len(clients) == 2:
            acc.sig(env.sig([[st["kind"] for st, *_ in recs] for recs in records], "".join(choice_log)))
        if len(clients) == 2:
            acc.count("interleaved_histories")
            acc.count("replies_released_by_scheduler", len(choice_log))
            acc.sig(env.sig("interleaving", "".join(choice_log)))
            if "AB" in "".join(choice_log).upper() or "BA" in "".join(choice_log).upper():
                acc.count("histories_with_alternation")
        if case.get("exhaustive"):
            acc.count("exhaustive_histories")
        if (len(clients) == 2 and len(choice_log) > 6 and len(acc.samples) < 3) or (case.get("exhaustive") and len(acc.samples) < 1):
            acc.sample({"instances": [{"type": c["type"], "id": c["id"], "key": c["key"], "ops": [s["kind"] for s in c["steps"]]} for c in case["clients"]],
                        "release_order": "".join(choice_log)})


    def thread_pairs(self, ctx):
        from ..monitors.threadops import api_pair

        clock.set_zone("UTC")
        a = {"type": 1, "id": "a1a1a1", "key": "18", "op": "turn_on", "args": {"minutes": 0}}
        b = {"type": 2, "id": "b2b2b2", "key": "27", "op": "get_shutter_state", "args": {}, "family": "shutter"}
        c = {"type": 2, "id": "c3c3c3", "key": "31", "op": "control_breeze", "args": {"state": "ON", "mode": "COOL", "target": 24}, "remote": self.remotes["ordinary"]}
        d = {"type": 1, "id": "d4d4d4", "key": "42", "op": "get_schedules", "args": {}}
        rep = {"temp_tenths": 250, "state": "OFF", "mode": "HEAT", "target": 21, "fan": "LOW", "swing": "OFF", "remote_id": "ELEC7001"}
        return [api_pair("control_device (instance A, one thread) || get_shutter_state (instance B, another thread)", a, b),
                api_pair("control_breeze_device || control_device", c, a, thermostat=rep),
                api_pair("get_schedules || control_breeze_device", d, c, thermostat=rep)]


PROP = C03()
