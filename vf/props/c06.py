"""C06 - only genuine Switcher broadcasts are accepted; anything else is ignored quietly.

Every judged datagram is bracketed by two sentinel broadcasts, so every event of
the callback log / warnings / WARNING+ log records / loop exception handler that
appears between the two sentinel deliveries is attributed to it.
"""

import asyncio

from .. import env, gen
from ..fakes import udp
from ..prop import Prop
from ..ref import broadcast as rb
from ..selftest import _res, broadcast_captures

BATCH = 24
KNOWN = {bytes.fromhex(v[0]) for v in rb.MODELS.values()}
CAPTURES = ["test_device_parsing/test_a_breeze_datagram_produces_device.txt",
            "test_device_parsing/test_a_runner_datagram_produces_device.txt",
            "test_device_parsing/test_a_water_heater_datagram_produces_device.txt",
            "test_device_parsing/test_a_power_plug_datagram_produces_device.txt"]


def neighbours():
    out = set()
    for code in KNOWN:
        v = int.from_bytes(code, "big")
        for a in range(16):
            out.add(v ^ (1 << a))
            for b in range(a + 1, 16):
                out.add(v ^ (1 << a) ^ (1 << b))
        # the known code with its bytes or nibbles transposed / rotated (what a typo in a table produces)
        h = code.hex()
        for t in (h[2:] + h[:2], h[1:] + h[:1], h[3:] + h[:3], h[0] + h[2] + h[1] + h[3], h[1] + h[0] + h[2:], h[:2] + h[3] + h[2], h[::-1]):
            out.add(int(t, 16))
        out.add((v + 1) & 0xFFFF)
        out.add((v - 1) & 0xFFFF)
        out.add((v + 0x100) & 0xFFFF)
        out.add((v - 0x100) & 0xFFFF)
    return sorted(x for x in out if x.to_bytes(2, "big") not in KNOWN)


class C06(Prop):
    id = "C06"
    tour_noisy = False
    level = "exploration"
    technique = "callback-log monitor on a running bridge fed over loopback UDP; each judged datagram bracketed by sentinel broadcasts; gate + unknown-model oracle"
    rule = ("judged datagrams: (a) every length 0..400 x {fe f0 magic, no magic, 5 near-magics} x random/zero/capture-derived content (gate-passing "
            "combinations excluded), (b) the 4 shipped captures truncated or extended by 1..3 bytes, and extended / prefixed / cut by exactly one byte that sweeps all 256 values, (c) unknown model codes inside otherwise "
            "valid frames of all three lengths: all 1- and 2-bit neighbours of the 9 known codes + random codes (quick), all 65,527 (thorough); "
            "distinct = (class, length, magic, model code); non-trivial = all")
    level_text = ("Held-on-observed: every non-genuine datagram must leave no trace in any of four channels (device, warning, WARNING+ log, loop "
                  "exception handler); every gate-passing frame with an unknown model code must produce no device, no exception and a warning "
                  "mentioning 'unknown'. Thorough enumerates all 65,527 unknown codes in each frame length.")
    level_note = "gate-passing frames with a known model code but undecodable fields are outside the statement (C07 only judges their effect on later datagrams)"
    assumptions = ["events are attributed by sentinel bracketing on one socket (loopback UDP between one socket pair is ordered)",
                   "kernel datagram loss makes a batch inconclusive"]
    warnings_as_errors = False   # unknown models are *reported by a warning*: under an error filter that is an exception by design
    anchors = ["aioswitcher.bridge:DatagramParser.is_switcher_originator", "aioswitcher.bridge:DatagramParser.get_device_type",
               "aioswitcher.bridge:_parse_device_from_datagram", "aioswitcher.bridge:UdpClientProtocol.datagram_received"]
    min_evaluations = {"quick": 5_000, "thorough": 150_000}
    budget_s = {"quick": 300, "thorough": 900}

    def selftest(self):
        broadcast_captures()

    async def setup(self, ctx):
        from aioswitcher.bridge import SwitcherBridge

        self.rig = udp.UdpRig(ctx["shard"])
        self.rig.install(asyncio.get_running_loop())
        self.port = self.rig.free_ports(1)[0]
        self.bridge = SwitcherBridge(self.rig.log.callback, [self.port])
        await self.bridge.start()
        self.tp = await udp.probe_bridges(self.rig)
        self.caps = [_res(c) for c in CAPTURES]
        self.vnow = 1_790_000_000.0
        # the same event loop also runs a TCP client that keeps connecting, querying and disconnecting (a real integration
        # does both): nothing it does may change what the bridge reports
        from .. import tcpwork
        import aioswitcher.api as api_mod

        self.trig = tcpwork.Rig(ctx["shard"])
        self.tdev = await self.trig.device()
        self.churn_ops = 0

        async def churn():
            while True:
                api = api_mod.SwitcherType1Api(self.tdev.ip, "a1b2c3", "18")
                try:
                    await api.connect()
                    await api.get_state()
                    self.churn_ops += 1
                finally:
                    await api.disconnect()
                self.tdev.conns.clear()
                await asyncio.sleep(0)

        self.churn = asyncio.ensure_future(churn())

    async def teardown(self, ctx):
        self.churn.cancel()
        try:
            await self.churn
        except BaseException:
            pass
        await self.trig.close()
        for b, _, _ in self.tp:
            await b.stop()
        await self.bridge.stop()
        self.rig.uninstall(asyncio.get_running_loop())

    # a case is a batch of up to 24 judged datagrams described compactly
    def cases(self, tier, seed, shard, nshards):
        items = []
        magics = ["fef0", "none", "fef1", "fff0", "f0fe", "fe", "00f0"]
        for n in range(0, 401):
            for mg in magics:
                for content in (("random",) if tier == "quick" and n % 5 else ("random", "zeros", "capture")):
                    items.append(["len", n, mg, content])
        for ci in range(len(CAPTURES)):
            for delta in (-3, -2, -1, 1, 2, 3):
                items.append(["cap", ci, delta])
        # one byte more / one byte less than every genuine length, the extra or last byte sweeping all 256 values
        for ci in range(len(CAPTURES)):
            for v in range(256):
                items.append(["edge", ci, "append", v])
                if tier == "thorough" or v % 4 == 0 or v in (0x0A, 0x0D, 0x00, 0xFF, 0x20):
                    items.append(["edge", ci, "prepend", v])
                    items.append(["edge", ci, "replace_last_and_cut", v])
        # wrong-sized strings that carry the magic AND their own length in bytes 2-3 (as every real Switcher frame does),
        # and the library's own request frames: none of them is a broadcast
        for n in range(4, 401):
            if n not in (165, 168, 159) and (tier == "thorough" or n % 2 == 0 or n < 60):
                items.append(["selflen", n])
        for k in range(14):
            items.append(["request", k])
        codes = neighbours()
        r = env.rng("C06", seed, "codes")
        if tier == "thorough":
            codes = [c for c in range(65536) if c.to_bytes(2, "big") not in KNOWN]
        else:
            codes = codes + [r.randrange(65536) for _ in range(400)]
            codes = [c for c in codes if c.to_bytes(2, "big") not in KNOWN]
        for c in codes:
            for n in ((165, 168, 159) if tier == "thorough" or c % 2 == 0 else (165,)):
                items.append(["unk", c, n])
        batches = [items[k:k + BATCH] for k in range(0, len(items), BATCH)]
        for bi in range(shard, len(batches), nshards):
            yield {"items": batches[bi], "seed": f"{seed}/{bi}"}
            if bi // nshards in (3, 11):
                # a long-lived listener on a chatty network: thousands of tiny foreign datagrams, most of them empty
                yield {"flood": 2600 if tier == "quick" else 12000, "seed": f"{seed}/flood{bi}"}

    def _build(self, item, r):
        kind = item[0]
        if kind == "len":
            _, n, mg, content = item
            if content == "zeros":
                body = bytearray(n)
            elif content == "capture":
                cap = r.choice(self.caps)
                body = bytearray((cap * 3)[:n])
            else:
                body = bytearray(r.randbytes(n))
            prefix = {"none": None, "fe": b"\xfe"}.get(mg, bytes.fromhex(mg) if mg not in ("none", "fe") else None)
            if mg == "none":
                if n >= 2 and body[0:2] == b"\xfe\xf0":
                    body[0] = 0x7E
            else:
                body[0:len(prefix)] = prefix[:n]
                if mg == "fe" and n >= 2 and body[1] == 0xF0:
                    body[1] = 0xF1
            data = bytes(body[:n])
            if rb.gate(data):
                return None, None  # genuine by the gate: not in this class
            return data, ("nongenuine", n, mg)
        if kind == "cap":
            _, ci, delta = item
            cap = self.caps[ci]
            data = cap[:delta] if delta < 0 else cap + r.randbytes(delta)
            if rb.gate(data):
                return None, None
            return data, ("nongenuine-capture", len(data), delta)
        if kind == "selflen":
            n = item[1]
            cap = r.choice(self.caps)
            body = bytearray((cap * 3)[:n]) if r.random() < 0.5 else bytearray(r.randbytes(n))
            body[0:2] = b"\xfe\xf0"
            body[2:4] = n.to_bytes(2, "little")
            return bytes(body), ("nongenuine-self-consistent-length", n)
        if kind == "request":
            from ..props.c04 import FRAME_KINDS
            from ..selftest import DEV, KEY, SESSION, TS
            from ..ref import frames as _fr

            k2, a2 = FRAME_KINDS[item[1]]
            data = _fr.build(k2, SESSION, TS, DEV, KEY, a2)
            if rb.gate(data):
                return None, None
            return data, ("nongenuine-own-request-frame", len(data), k2)
        if kind == "edge":
            _, ci, how, v = item
            cap = self.caps[ci]
            if how == "append":
                data = cap + bytes([v])
            elif how == "prepend":
                data = bytes([v]) + cap
            else:
                data = cap[:-2] + bytes([v])
            if rb.gate(data):
                return None, None
            return data, ("nongenuine-edge", len(data), how, v)
        _, code, n = item
        base = bytearray(rb.TEMPLATES[n])
        if r.random() < 0.5:
            filler = r.randbytes(n)
            base[4:18] = filler[4:18]
            base[86:n] = filler[86:n]
        if r.random() < 0.35:
            base[42:74] = r.randbytes(32)      # whatever the other fields hold, an unknown model is reported, not crashed on
        if r.random() < 0.2:
            base[76:n - 4] = r.randbytes(n - 4 - 76)
        base[74:76] = code.to_bytes(2, "big")
        base[133] = r.choice([0, 1, 1, 2, 0xFF])
        return bytes(base), ("unknown-model", n, code)

    async def run_case(self, case, acc, ctx):
        from ..ref import clock

        r = env.rng("C06", case["seed"])
        if case.get("flood"):
            await self._flood(case, acc, r)
            return
        # the wall clock moves between batches: a second, a minute and a bit, hours, a day, now and then backwards
        self.vnow += r.choice([0.5, 7, 61, 61, 3700, 86400 + 5, -30, -4000])
        with clock.virtual_time(self.vnow):
            await self._run_batch(case, acc, r)
        if self.churn.done():
            acc.inconclusive_because(f"the background TCP client stopped: {self.churn.exception()!r}")

    async def _flood(self, case, acc, r):
        log = self.rig.log
        sent = 0
        while sent < case["flood"]:
            log.clear()
            chunk = []
            for _ in range(40):
                x = r.random()
                data = b"" if x < 0.7 else (r.randbytes(1) if x < 0.85 else r.randbytes(r.randrange(2, 5)))
                if rb.gate(data):
                    continue
                chunk.append(data)
                self.rig.send(self.port, data)
            res = await self.rig.barrier(self.port)
            sent += len(chunk)
            if res == "dropped":
                acc.inconclusive_because("kernel dropped datagrams (drops>0 in /proc/net/udp)")
                return
            events = [e for e in log.events if not (e[0] == "device" and udp.is_sentinel(e[1]))]
            acc.ev(len(chunk))
            acc.count("tiny_foreign_datagrams_in_floods", len(chunk))
            if res == "lost":
                acc.violation("later-delivery-stopped", f"after {sent} tiny foreign datagrams (most of them empty) a sentinel broadcast was no longer delivered",
                              {"events": [str(e)[:160] for e in events][:5]})
                return
            if events:
                acc.violation(f"nongenuine-produced-{events[0][0]}:flood", f"a run of {len(chunk)} empty / 1..4-byte datagrams (about {sent} into a flood) caused {events[:2]}",
                              {"events": [str(e)[:200] for e in events][:5], "datagrams": [d.hex() for d in chunk][:10]})
                return
        acc.sig(env.sig("flood", case["seed"]))

    async def _run_batch(self, case, acc, r):
        log = self.rig.log
        log.clear()
        judged = []
        tags = [self.rig.send_sentinel(self.port)]
        for item in case["items"]:
            data, cls = self._build(item, r)
            if data is None:
                acc.skip_unspecified()
                continue
            self.rig.send(self.port, data)
            tags.append(self.rig.send_sentinel(self.port))
            judged.append((data, cls))
            if cls[0] == "unknown-model" and cls[2] % 4 == 1:
                # the same unknown device is heard again an hour (a day) later: same verdict
                await env.wait_real(self.rig.log.sentinels[tags[-1]], 10.0)      # the first sighting has been handled by now
                env.idle(3700 if cls[2] % 8 == 1 else 90000)
                self.rig.send(self.port, data)
                tags.append(self.rig.send_sentinel(self.port))
                judged.append((data, cls))
                acc.count("unknown_models_heard_again_after_an_hour")
        res = await self.rig.wait_sentinel(tags[-1], self.port)
        for t in tags[:-1]:
            self.rig.log.sentinels.pop(t, None)
        if res == "dropped":
            acc.count("batches_with_kernel_drops")
            acc.inconclusive_because("kernel dropped datagrams (drops>0 in /proc/net/udp)")
            return
        # split the event log at sentinel deliveries
        slots, cur, seen = [], None, 0
        for kind, payload in log.events:
            if kind == "device" and udp.is_sentinel(payload):
                if cur is not None:
                    slots.append(cur)
                cur = []
                seen += 1
            elif cur is not None:
                cur.append((kind, payload))
            else:
                slots.append([(kind, payload)])  # before the first sentinel: should not happen
        if res == "lost" or seen != len(tags):
            acc.violation("later-delivery-stopped", f"only {seen} of {len(tags)} sentinel broadcasts were delivered after non-genuine datagrams",
                          {"items": case["items"][:5], "events": [str(e)[:120] for e in log.events if e[0] != 'device'][:6]})
            return
        for (data, cls), events in zip(judged, slots):
            acc.ev()
            acc.count(f"class_{cls[0]}")
            acc.sig(env.sig(cls))
            self._judge(acc, data, cls, events)
        # the same datagrams handed to the listening endpoint's protocol object in a mutable buffer (what an event loop that
        # reuses its receive buffer does): same verdicts
        proto = getattr(self.bridge._transports.get(self.port), "_protocol", None)
        if proto is not None:
            for data, cls in judged[:: max(1, len(judged) // 5)]:
                log.clear()
                acc.ev()
                acc.count("datagrams_handed_over_as_bytearray")
                try:
                    proto.datagram_received(bytearray(data), ("127.0.0.1", 40000))
                except Exception as exc:          # in a running loop this is what the loop's exception handler would be given
                    log.events.append(("loop_exc", f"{type(exc).__name__}:{exc}"))
                self._judge(acc, data, cls, [e for e in log.events if not (e[0] == "device" and udp.is_sentinel(e[1]))], ":mutable-buffer")
        if judged and len(acc.samples) < 4 and case["items"][0][0] != "len":
            data, cls = judged[0]
            acc.sample({"class": list(cls), "datagram": data.hex()[:160] + "...", "events_attributed": [str(e)[:100] for e in slots[0]]})
        elif judged and len(acc.samples) < 2:
            data, cls = judged[0]
            acc.sample({"class": list(cls), "datagram_len": len(data), "events_attributed": [str(e)[:100] for e in slots[0]]})


    def _judge(self, acc, data, cls, events, how=""):
        if True:
            kinds = [k for k, _ in events]
            if cls[0].startswith("nongenuine"):
                if events:
                    acc.violation(f"nongenuine-produced-{kinds[0]}{how}", f"{cls}: a non-genuine datagram of {len(data)} bytes caused {events[:2]}",
                                  {"class": list(cls), "datagram": data.hex()[:400], "events": [str(e)[:200] for e in events]})
            else:
                if "device" in kinds:
                    acc.violation("unknown-model-delivered" + how, f"model code {cls[2]:04x} in a {cls[1]}-byte frame produced a device",
                                  {"code": f"{cls[2]:04x}", "len": cls[1], "datagram": data.hex()})
                if "loop_exc" in kinds:
                    exc = next(p for k, p in events if k == "loop_exc")
                    acc.violation("unknown-model-raised" + how, f"model code {cls[2]:04x} in a {cls[1]}-byte frame raised into the event loop: {exc}",
                                  {"code": f"{cls[2]:04x}", "len": cls[1], "datagram": data.hex(), "exc": exc})
                if not any(k == "warning" and "unknown" in p.lower() for k, p in events):
                    acc.violation("unknown-model-no-warning" + how, f"model code {cls[2]:04x} in a {cls[1]}-byte frame produced no 'unknown device' warning; events {events[:2]}",
                                  {"code": f"{cls[2]:04x}", "len": cls[1], "datagram": data.hex()})

    def finish(self, acc, ctx):
        acc.count("tcp_client_cycles_in_the_same_loop", self.churn_ops)


    def thread_pairs(self, ctx):
        r = env.rng("C06", "threads")
        (b1, p1, g1), (b2, p2, g2) = self.tp
        if p1 is None or p2 is None:
            return []
        d = {m: gen.broadcast_desc(r, m, 7, f"{0xD00000 + n:06x}") for n, m in enumerate(("BREEZE", "V4", "RUNNER", "POWER_PLUG", "BREEZE"))}
        d2 = gen.broadcast_desc(r, "BREEZE", 11, "d000aa")
        enc = {m: rb.encode(x) for m, x in d.items()}
        nomagic = bytearray(enc["V4"])
        nomagic[0:2] = b"\x00\x00"
        unknown = bytearray(enc["V4"])
        unknown[74:76] = b"\xee\x01"
        H, J = udp.handed_over, udp.judge_delivery
        return [("first broadcast ever: Breeze || Breeze", H(p1, g1, enc["BREEZE"]), H(p2, g2, rb.encode(d2)), J(d["BREEZE"]), J(d2)),
                ("frame without the magic || genuine broadcast", H(p1, g1, bytes(nomagic)), H(p2, g2, enc["RUNNER"]), J(None), J(d["RUNNER"])),
                ("genuine broadcast || frame without the magic", H(p1, g1, enc["POWER_PLUG"]), H(p2, g2, bytes(nomagic)), J(d["POWER_PLUG"]), J(None)),
                ("unknown model || water heater", H(p1, g1, bytes(unknown)), H(p2, g2, enc["V4"]), J("unknown"), J(d["V4"])),
                ("runner || plug", H(p1, g1, enc["RUNNER"]), H(p2, g2, enc["POWER_PLUG"]), J(d["RUNNER"]), J(d["POWER_PLUG"]))]


PROP = C06()
