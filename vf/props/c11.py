"""C11 - clock times survive encoding and decoding in every time zone and on every date.

The real encoder/decoder run under a virtual wall clock (time_machine) and a
switched host zone (TZ + tzset); the oracle is zoneinfo arithmetic.
"""

import enum
from datetime import date, datetime, timedelta, timezone

from .. import env
from ..prop import Prop
from ..ref import clock

FIXED_EPOCHS = [1_700_000_000 + k * 7_654_321 % 63_072_000 for k in range(96)]
MALFORMED = ["21:00\n", "21:00\r\n", "21:00\n:junk", "21:00 x", "21:00\t", "\n21:00x", "12:30Z", "12:30+02", "08:15-11", "21:00+0545", "06:45.5", "1_2:30", "12:3_0", "12:30am", "T12:30", "12h30", "0x0c:1e",
             "", "2100", "21", "ab:cd", "x1:00", "12:y", "24:00", "25:10", "99:99", "12:60", "12:75",
             "-1:30", "12:-5", ":", ":30", "12:", "noon", "1200:", "12;30", "１２:３０",
             # text that means something to the formatting / parsing machinery underneath
             "%H:%M", "%M:%S", "%I:%M", "%k:%M", "%H:00", "07:%M", "%d:%m", "%%:00", "12:%%", "{}:{}", "{0}:00", "%s:%s", "%(h)s:00", "\\d\\d:00", "*:30", "..:..", "12:3.", "[0-9]:00"]


class Shown(str):
    """A str whose str() and format() show something else than its value."""

    def __str__(self):
        return "<time>"

    def __format__(self, spec):
        return "<time>"


class Raw(bytes):
    def __str__(self):
        return "<raw>"


def instants_for(zone: str, r, n_random: int):
    """Virtual 'now' instants: around every transition of the zone, year ends, leap days, random."""
    out = []
    # the hours before another zone's transition while that zone still shares this zone's offset (Lagos before Berlin springs forward,
    # UTC before London does): what is keyed by 'the offset right now' cannot tell the two apart there
    partners = []
    for z in env.ZONES:
        if z == zone:
            continue
        for t in clock.transitions(z, 2024, 2027):
            if clock.local(z, t - 1).utcoffset() == clock.local(zone, t - 1).utcoffset() and clock.local(z, t).utcoffset() != clock.local(zone, t).utcoffset():
                partners.append(t - r.randrange(600, 5 * 3600))
    r.shuffle(partners)
    out += partners[:10]
    for t in clock.transitions(zone):
        for delta_days in (-1, 0, 1):
            base = t + delta_days * 86400
            out.append(base - r.randrange(60, 6 * 3600))  # earlier that day
            out.append(base + r.randrange(60, 6 * 3600))
        out.append(t - 1)
        out.append(t)
    # years in which several zones still had other rules than today (Sao Paulo, Moscow, Istanbul, Tehran had DST or another offset)
    for y, mo in ((2010, 1), (2010, 7), (2015, 1), (2018, 1), (2018, 12), (2021, 7)):
        out.append(int(datetime(y, mo, 15, r.randrange(24), r.randrange(60), tzinfo=timezone.utc).timestamp()))
    for y in (2023, 2024, 2025, 2026):
        for (mo, d) in ((12, 31), (1, 1), (2, 28), (3, 1)):
            out.append(int(datetime(y, mo, d, r.randrange(24), r.randrange(60), r.randrange(60), tzinfo=timezone.utc).timestamp()))
    out.append(int(datetime(2024, 2, 29, r.randrange(24), r.randrange(60), tzinfo=timezone.utc).timestamp()))
    for _ in range(n_random):
        out.append(r.randrange(1_672_531_200, 1_830_000_000))  # 2023 .. end of 2027
    return out


class C11(Prop):
    id = "C11"
    tour_every = 5
    level = "exploration"
    technique = "real encoder/decoder driven under a virtual clock and switched host zone; zoneinfo oracle over all 1440 minutes per (zone, instant)"
    rule = ("case = (zone, virtual now); all 1440 HH:MM are encoded and decoded back under it, plus 64 arbitrary instants and 96 fixed instants (the same in every case, so each is decoded under many zones in one process) decoded, "
            "plus 20 malformed strings; distinct = (zone, local date, utc offset pattern of that date); non-trivial = case whose "
            "local date differs from the UTC date, or lies on/next to a UTC-offset transition, or zone offset is not a whole hour")
    level_text = ("Held-on-observed over 14 zones (+14..-11, half/quarter-hour, both DST hemispheres) x dates on and around every "
                  "transition 2023-2027, year ends and leap days, with all 1440 minutes per case; gaps are skipped and counted, either "
                  "epoch of a fall-back overlap is accepted.")
    level_note = "trusts system tzdata (shared by zoneinfo and libc; cross-checked in the self-test), time_machine's virtual wall clock"
    assumptions = ["system tzdata", "time_machine freezes time.time/strftime/localtime", "times inside a spring-forward gap are unspecified"]
    anchors = ["aioswitcher.schedule.tools:time_to_hexadecimal_timestamp", "aioswitcher.schedule.tools:hexadecimale_timestamp_to_localtime"]
    min_evaluations = {"quick": 150_000, "thorough": 1_500_000}
    budget_s = {"quick": 300, "thorough": 900}

    def selftest(self):
        clock.selftest(1400)

    async def setup(self, ctx):
        from aioswitcher.schedule import tools

        self.tools = tools

    def cases(self, tier, seed, shard, nshards):
        n_random = {"quick": 6, "thorough": 1200}[tier]
        i = 0
        for zone in env.ZONES:
            r = env.rng("C11", seed, zone)
            inst = instants_for(zone, r, n_random)
            if tier == "quick":
                # all transition-adjacent instants are kept; cap the rest
                inst = inst[:70] + inst[-(n_random + 23):]
            for now in inst:
                if i % nshards == shard:
                    yield {"zone": zone, "now": now}
                i += 1

    def run_case(self, case, acc, ctx):
        zone, now = case["zone"], case["now"]
        clock.set_zone(zone)
        today = clock.local(zone, now).date()
        utc_today = datetime.fromtimestamp(now, timezone.utc).date()
        enc, dec = self.tools.time_to_hexadecimal_timestamp, self.tools.hexadecimale_timestamp_to_localtime
        offs = {clock.local(zone, now + k * 3600).utcoffset() for k in range(-36, 37, 6)}
        nontrivial = today != utc_today or len(offs) > 1 or (next(iter(offs)).total_seconds() % 3600) != 0
        gaps = folds = 0
        with clock.virtual_time(now):
            for m in range(1440):
                hh, mm = divmod(m, 60)
                s = f"{hh:02d}:{mm:02d}"
                want = clock.epochs_of(zone, today, hh, mm)
                if not want:
                    gaps += 1
                    continue
                if len(want) == 2:
                    folds += 1
                try:
                    h = enc(s)
                except Exception as exc:
                    acc.violation("encode-raised", f"{s} in {zone} on {today} raised {type(exc).__name__}: {exc}", {"time": s, "today": str(today)})
                    continue
                ok_form = isinstance(h, str) and len(h) == 8
                got = int.from_bytes(bytes.fromhex(h), "little") if ok_form else None
                if got not in want:
                    acc.violation("encode-wrong-epoch",
                                  f"{s} in {zone} on {today} encoded as {h} = {got} ({clock.local(zone, got) if got is not None else '?'}), want one of {want}",
                                  {"time": s, "today": str(today), "got": got, "want": want})
                    continue
                try:
                    back = dec(h.encode())
                except Exception as exc:
                    acc.violation("decode-raised", f"decode({h}) raised {type(exc).__name__}", {"hex": h})
                    continue
                if back != s:
                    acc.violation("round-trip", f"{s} -> {h} -> {back} in {zone} on {today}", {"time": s, "hex": h, "back": back})
                if m % 41 == now % 41:
                    # the same values handed over in the other ways Python allows
                    forms = {"encode:keyword": lambda: enc(time_value=s), "encode:str-subclass": lambda: enc(Shown(s)),
                             "encode:str-enum-member": lambda: enc(enum.Enum("Preset", {"MORNING": s}, type=str).MORNING),
                             "decode:keyword": lambda: dec(hex_timestamp=h.encode()), "decode:bytearray": lambda: dec(bytearray(h.encode())),
                             "decode:bytes-subclass": lambda: dec(Raw(h.encode())), "decode:str": lambda: dec(h)}
                    for form, fn in forms.items():
                        acc.ev()
                        acc.count("call_forms")
                        try:
                            out = fn()
                        except Exception as exc:
                            acc.violation(f"{form.split(':')[0]}-raised:{form.split(':')[1]}", f"{s} / {h} in {zone} passed as {form} raised {type(exc).__name__}: {exc}",
                                          {"time": s, "hex": h, "form": form})
                            continue
                        exp_ok = (out == s) if form.startswith("decode") else (isinstance(out, str) and len(out) == 8 and int.from_bytes(bytes.fromhex(out), "little") in want)
                        if not exp_ok:
                            acc.violation(f"result-depends-on-call-form:{form}", f"{s} / {h} in {zone} passed as {form} gives {out!r}", {"time": s, "hex": h, "form": form})
            acc.ev(1440 - gaps)
            acc.skip_unspecified(gaps)
            acc.count("minutes_in_gap_skipped", gaps)
            acc.count("minutes_in_overlap", folds)
            # decoding arbitrary instants (not only today's)
            r = env.rng("C11", "dec", zone, now)
            # the same 96 instants decoded under this zone and, right after, under another one (the host zone may change
            # while the process lives): a result remembered from the first zone is wrong in the second
            z2 = env.ZONES[(env.ZONES.index(zone) + 1 + now % (len(env.ZONES) - 1)) % len(env.ZONES)]
            alike = clock.confusable(zone, now, env.ZONES)
            if alike and now % 4 != 3:
                z2 = alike[now % len(alike)]      # a zone easily mistaken for this one: same offset right now, or same abbreviations
                acc.count("zone_switches_to_a_confusable_zone")
            epochs = FIXED_EPOCHS
            if zone in clock.TWINS and now % 3 != 1:
                # ... or its twin: identical abbreviations and offsets today, another history (instants at which the two disagreed)
                z2, old_instants = clock.TWINS[zone]
                epochs = old_instants + FIXED_EPOCHS[:40]
                acc.count("zone_switches_to_a_twin_zone")
            for zz in (zone, z2, zone):
                clock.set_zone(zz)
                for e in epochs:
                    h = e.to_bytes(4, "little").hex()
                    acc.ev()
                    try:
                        got = dec(h.encode())
                    except Exception as exc:
                        acc.violation("decode-raised", f"decode({h}) raised {type(exc).__name__}", {"hex": h})
                        continue
                    if got != clock.hhmm_of(zz, e):
                        acc.violation("decode-wrong-time:after-zone-change", f"epoch {e} in {zz} (right after decoding it in another zone) decoded {got}, "
                                      f"want {clock.hhmm_of(zz, e)}", {"epoch": e, "got": got, "zone": zz})
                # and the encoder: the same strings under the first zone and, right after the zone changed, under the second
                if True:
                    t2 = clock.local(zz, now).date()
                    for m in (0, 61, 725, 1439, (now // 7) % 1440, (now // 11) % 1440, (now // 13) % 1440, 600, 601):
                        want2 = clock.epochs_of(zz, t2, m // 60, m % 60)
                        if not want2:
                            continue
                        acc.ev()
                        try:
                            g2 = int.from_bytes(bytes.fromhex(enc(f"{m // 60:02d}:{m % 60:02d}")), "little")
                        except Exception as exc:
                            acc.violation("encode-raised", f"{m} in {zz} raised {type(exc).__name__}", {})
                            continue
                        if g2 not in want2:
                            acc.violation("encode-wrong-epoch:after-zone-change", f"{m // 60:02d}:{m % 60:02d} in {zz} on {t2} (right after encoding it in "
                                          f"{zone if zz == z2 else z2}) encoded as {g2}, want one of {want2}", {"zone": zz})
            acc.count("zone_switches_inside_a_case", 2)
            clock.set_zone(zone)
            # the encoder under the name the API module binds for create_schedule, and the decoder as the listing parser uses it
            import aioswitcher.api as _api
            from aioswitcher.schedule import parser as _parser
            from ..ref import replies as _rp

            enc_api = getattr(_api, "time_to_hexadecimal_timestamp", None)
            if enc_api is not None:
                for m in (0, 61, 725, 1439, (now // 17) % 1440, (now // 19) % 1440):
                    want_m = clock.epochs_of(zone, today, m // 60, m % 60)
                    if not want_m:
                        continue
                    acc.ev()
                    acc.count("encodes_through_the_api_modules_binding")
                    try:
                        gm = int.from_bytes(bytes.fromhex(enc_api(f"{m // 60:02d}:{m % 60:02d}")), "little")
                    except Exception as exc:
                        acc.violation("encode-raised:api-binding", f"aioswitcher.api's encoder raised {type(exc).__name__} for {m // 60:02d}:{m % 60:02d} in {zone}", {"zone": zone})
                        continue
                    if gm not in want_m:
                        acc.violation("encode-wrong-epoch:api-binding", f"{m // 60:02d}:{m % 60:02d} in {zone} on {today}: the encoder the API module uses for create_schedule gives {gm} "
                                      f"({clock.local(zone, gm)}), want one of {want_m}", {"zone": zone, "minute": m})
            for n_, e in enumerate(FIXED_EPOCHS[:12]):
                e2 = FIXED_EPOCHS[(n_ * 5 + now) % len(FIXED_EPOCHS)]
                acc.ev()
                try:
                    listed = list(_parser.get_schedules(_rp.schedules([_rp.schedule_record(n_ % 8, 0x54, e, e2)])))
                    got_se = (listed[0].start_time, listed[0].end_time) if listed else None
                except Exception as exc:
                    acc.violation("decode-raised:in-a-listing", f"a listing whose record starts at epoch {e} raised {type(exc).__name__}: {exc}", {"epoch": e, "zone": zone})
                    continue
                want_se = (clock.hhmm_of(zone, e), clock.hhmm_of(zone, e2))
                if got_se != want_se:
                    acc.violation("decode-wrong-time:in-a-listing", f"{zone}: a listed record (slot {n_ % 8}) with start {e} / end {e2} reads {got_se}, want {want_se}",
                                  {"epoch": e, "zone": zone})
            acc.count("decodes_inside_listings", 12)
            env.idle((0, 5, 3700, 90000)[now % 4])       # real time passes: the process idles before it decodes again, zone unchanged
            for e in FIXED_EPOCHS[:24]:
                acc.ev()
                try:
                    got = dec(e.to_bytes(4, "little").hex().encode())
                    if got != clock.hhmm_of(zone, e):
                        acc.violation("decode-wrong-time:after-idle", f"epoch {e} in {zone} decoded {got} after an idle period", {"epoch": e, "zone": zone})
                except Exception as exc:
                    acc.violation("decode-raised:after-idle", f"decode of epoch {e} in {zone}, an hour or more of real time after it was last decoded, raised "
                                  f"{type(exc).__name__}: {exc}", {"epoch": e, "zone": zone})
            for _ in range(64):
                e = r.randrange(0, 2 ** 32) if r.random() < 0.2 else now + r.randrange(-400 * 86400, 400 * 86400)
                e = max(0, min(2 ** 32 - 1, e))
                h = e.to_bytes(4, "little").hex()
                acc.ev()
                try:
                    got = dec(h.encode())
                except Exception as exc:
                    acc.violation("decode-raised", f"decode({h}) raised {type(exc).__name__}", {"hex": h})
                    continue
                if got != clock.hhmm_of(zone, e):
                    acc.violation("decode-wrong-time", f"epoch {e} in {zone} decoded {got}, want {clock.hhmm_of(zone, e)}", {"epoch": e, "got": got})
            for s in MALFORMED:
                acc.ev()
                try:
                    out = enc(s)
                except Exception:
                    acc.count("malformed_rejected")
                    continue
                acc.violation("malformed-accepted", f"{s!r} encoded to {out!r}", {"input": s, "output": out})
        # the process lives on into the next local day (a day that may be 23, 24 or 25 hours after this one began)
        clock.set_zone(zone)
        loc_ = clock.local(zone, now)
        nxt = clock.epochs_of(zone, (loc_ + timedelta(days=1)).date(), 0, 0) or clock.epochs_of(zone, (loc_ + timedelta(days=1)).date(), 1, 0)
        if nxt:
            # (negative: the last second of the day, at fractions of a second the clock really shows - 'today' is still the old day)
            for after in (600, 1500, 3300, 4500, -0.25, -0.5, -0.9, -59.4):
                t_ = nxt[0] + after
                day_ = clock.local(zone, t_).date()
                with clock.virtual_time(t_):
                    for s_ in ("00:05", "06:30", "23:55"):
                        want_ = clock.epochs_of(zone, day_, int(s_[:2]), int(s_[3:]))
                        if not want_:
                            continue
                        acc.ev()
                        try:
                            g_ = int.from_bytes(bytes.fromhex(enc(s_)), "little")
                        except Exception as exc:
                            acc.violation("encode-raised", f"{s_} in {zone} shortly after the next local midnight raised {type(exc).__name__}: {exc}", {"zone": zone})
                            continue
                        if g_ not in want_:
                            acc.violation("encode-wrong-epoch:after-midnight", f"{zone}: {after / 60:.3f} min after the local midnight that follows {loc_.date()}, {s_} is encoded as {g_} "
                                          f"({clock.local(zone, g_)}), want one of {want_} (today is {day_})", {"zone": zone, "time": s_, "after_s": after})
            acc.count("cases_followed_into_the_next_local_day")
        if now % 3 == 0:
            # an application-side log handler that fails (full disk, broken pipe) while DEBUG is on: the calls made meanwhile
            # may fail with it and are not judged - the calls after the handler is gone are
            import logging

            class Failing(logging.Handler):
                def emit(self, record):
                    raise OSError(28, "No space left on device")

            lg = logging.getLogger("aioswitcher")
            h, old_level = Failing(), lg.level
            lg.addHandler(h)
            lg.setLevel(logging.DEBUG)
            try:
                for t_ in (now, now + 86400, now + 3 * 86400 + 3600):
                    with clock.virtual_time(t_):
                        for s_ in ("00:07", "12:34"):
                            try:
                                enc(s_)
                            except Exception:
                                acc.count("calls_that_failed_with_the_failing_log_handler")
            finally:
                lg.removeHandler(h)
                lg.setLevel(old_level)
            t_ = now + 3 * 86400 + 3600 + 60
            day_ = clock.local(zone, t_).date()
            with clock.virtual_time(t_):
                for s_ in ("00:07", "12:34", "23:59"):
                    want_ = clock.epochs_of(zone, day_, int(s_[:2]), int(s_[3:]))
                    if not want_:
                        continue
                    acc.ev()
                    try:
                        g_ = int.from_bytes(bytes.fromhex(enc(s_)), "little")
                    except Exception as exc:
                        acc.violation("encode-raised", f"{s_} in {zone} (after a log handler had failed during earlier calls) raised {type(exc).__name__}: {exc}", {"zone": zone})
                        continue
                    if g_ not in want_:
                        acc.violation("encode-wrong-epoch:after-failed-log-handler", f"{s_} in {zone} on {day_} encoded as {g_} ({clock.local(zone, g_)}), want one of {want_}; "
                                      f"a log handler had raised during earlier calls on earlier dates", {"zone": zone, "time": s_})
        off0 = clock.local(zone, now).utcoffset().total_seconds()
        if nontrivial:
            acc.sig(env.sig(zone, str(today), sorted(o.total_seconds() for o in offs)))
        acc.count("cases")
        acc.count("cases_local_date_differs_from_utc", int(today != utc_today))
        acc.count("cases_on_transition_day", int(len(offs) > 1))
        if gaps or folds or today != utc_today:
            acc.sample({"zone": zone, "virtual_now_utc": datetime.fromtimestamp(now, timezone.utc).isoformat(),
                        "local_today": str(today), "utc_offset_s": off0, "gap_minutes": gaps, "overlap_minutes": folds})


    def thread_pairs(self, ctx):
        from ..monitors.threadops import FROZEN_AT, expect

        clock.set_zone("Asia/Kathmandu")
        enc, dec = self.tools.time_to_hexadecimal_timestamp, self.tools.hexadecimale_timestamp_to_localtime
        today = clock.local("Asia/Kathmandu", FROZEN_AT).date()
        e = lambda s: clock.epochs_of("Asia/Kathmandu", today, int(s[:2]), int(s[3:]))[0].to_bytes(4, "little").hex()
        ha, hb = (1_800_000_000).to_bytes(4, "little").hex().encode(), (1_790_012_345).to_bytes(4, "little").hex().encode()
        return [("decode(A) || decode(B)", lambda: dec(ha), lambda: dec(hb), expect(clock.hhmm_of("Asia/Kathmandu", 1_800_000_000)), expect(clock.hhmm_of("Asia/Kathmandu", 1_790_012_345))),
                ("encode(07:15) || encode(21:40)", lambda: enc("07:15"), lambda: enc("21:40"), expect(e("07:15")), expect(e("21:40"))),
                ("decode(A) || decode(A)", lambda: dec(ha), lambda: dec(ha), expect(clock.hhmm_of("Asia/Kathmandu", 1_800_000_000)), expect(clock.hhmm_of("Asia/Kathmandu", 1_800_000_000)))]


PROP = C11()
