"""C13 - the next-run text names the earliest upcoming run of the schedule."""

from datetime import datetime, timedelta, timezone
from itertools import combinations

from .. import env
from ..prop import Prop
from ..ref import clock

ZONES = ["UTC", "Asia/Jerusalem", "America/New_York", "Pacific/Kiritimati", "Pacific/Pago_Pago",
         "Asia/Kathmandu", "America/Los_Angeles", "Australia/Sydney", "Europe/Berlin", "Australia/Lord_Howe"]
WD = clock.WEEKDAYS
DAY_NAMES = ["MONDAY", "TUESDAY", "WEDNESDAY", "THURSDAY", "FRIDAY", "SATURDAY", "SUNDAY"]
ALL_SETS = [frozenset(c) for n in range(0, 8) for c in combinations(range(7), n)]  # 128


class C13(Prop):
    id = "C13"
    tour_every = 5
    level = "exploration"
    technique = "real pretty_next_run driven under a virtual clock and switched host zone; independent earliest-occurrence oracle over all 128 day sets"
    rule = ("case = (zone, virtual now: 7 consecutive days incl. both sides of local midnight, plus year ends, month ends and leap days); under it all 128 day sets x a start-minute grid {now-1, now, now+1, 00:00, 23:59, now-60, "
            "now+60, random...} are evaluated and the text's token class (today / tomorrow / next <Weekday>) compared with the "
            "earliest future occurrence; distinct = (local weekday, local minute-of-day bucket, zone, whether local weekday differs "
            "from UTC weekday); non-trivial = cases where local weekday != UTC weekday or now is within 2 h of local midnight")
    level_text = ("Held-on-observed: all 7 local weekdays x all 128 day sets x a minute grid containing equality and both neighbours, "
                  "in 8 zones east and west of UTC, with a large share of instants where the local weekday differs from the UTC weekday.")
    level_note = "trusts zoneinfo for local weekday/minute and the 10-line earliest-occurrence model in vf/ref/clock.py"
    assumptions = ["'still ahead' means strictly later at minute resolution", "text is classified by tokens, not compared to a literal"]
    anchors = ["aioswitcher.schedule.tools:pretty_next_run", "aioswitcher.schedule.parser:SwitcherSchedule.__post_init__"]
    min_evaluations = {"quick": 150_000, "thorough": 1_500_000}
    budget_s = {"quick": 300, "thorough": 900}

    async def setup(self, ctx):
        from aioswitcher.schedule import Days, parser, tools

        self.tools, self.parser = tools, parser
        self.members = [Days[n] for n in DAY_NAMES]

    def cases(self, tier, seed, shard, nshards):
        per = {"quick": 8, "thorough": 300}[tier]
        extra = {"quick": 2, "thorough": 6}[tier]
        i = 0
        for zi, zone in enumerate(ZONES):
            if zi % nshards == shard % len(ZONES) or nshards == 1:
                yield {"kind": "clock_moves", "zone": zone, "now": 1_790_000_000 + zi * 86400 * 3 + seed * 7200}
        for zone in ZONES:
            r = env.rng("C13", seed, zone)
            base = r.randrange(1_690_000_000, 1_800_000_000)
            instants = []
            for day in range(7):
                # instants near local midnight on both sides (local weekday != UTC weekday is common there)
                t0 = base + day * 86400
                loc = clock.local(zone, t0)
                midnight = t0 - (loc.hour * 3600 + loc.minute * 60 + loc.second)
                instants += [midnight + r.randrange(0, 7200), midnight - r.randrange(1, 7200), midnight + 60, midnight - 60]
                instants += [t0 + r.randrange(86400) - 43200 for _ in range(per)]
            # calendar edges: year ends, month ends, leap day (tomorrow is in another month / year)
            for (y, mo, d) in ((2025, 12, 31), (2026, 12, 31), (2027, 12, 31), (2028, 12, 31), (2026, 1, 1), (2024, 2, 28), (2024, 2, 29),
                               (2025, 2, 28), (2026, 3, 31), (2026, 4, 30), (2026, 11, 30)):
                noon = int(datetime(y, mo, d, 12, 0, tzinfo=timezone.utc).timestamp())
                instants += [noon - 9 * 3600, noon, noon + 9 * 3600]
            # the days around a change of the zone's UTC offset, hour by hour from the evening before to the morning after ("the same
            # moment tomorrow" is 23 or 25 hours away there)
            for t in clock.transitions(zone, 2024, 2027):
                loc = clock.local(zone, t - 1)
                day_start = t - 1 - (loc.hour * 3600 + loc.minute * 60 + loc.second)
                for h in (-3, -2, -1, -0.5, 0.5, 1, 2, 3, 22, 23, 23.5, 24.5, 25, 26):
                    instants.append(int(day_start + h * 3600 + r.randrange(0, 1700)))
            for now in instants:
                if i % nshards == shard:
                    yield {"zone": zone, "now": now, "extra": extra}
                i += 1

    def _pass(self, acc, f, zone, now, wd, now_min, utc, grid, day_sets):
        for days in day_sets:
            dayset = {self.members[d] for d in days}
            for sm in grid:
                start = f"{sm // 60:02d}:{sm % 60:02d}"
                if sm < 600 and (sm + len(days)) % 5 == 2:
                    start = f"{sm // 60}:{sm % 60:02d}"        # "9:30": the hour as people type it (accepted like "09:30")
                    acc.count("starts_spelled_with_a_one_digit_hour")
                acc.ev()
                # the selected days in whatever collection the caller happens to hold them, positionally or by name
                form = (sm + len(days) * 7 + sum(days)) % 8
                try:
                    if not dayset:
                        text = f(start) if form % 2 else f(start_time=start)
                    elif form == 1:
                        text = f(start, frozenset(dayset))
                    elif form == 2:
                        text = f(start, tuple(sorted(dayset, key=lambda d: -d.weekday)))
                    elif form == 3:
                        text = f(start, list(dayset))
                    elif form == 4:
                        text = f(days=dayset, start_time=start)
                    elif form == 5:
                        text = f(start, days=frozenset(dayset))
                    else:
                        text = f(start, dayset)
                except Exception as exc:
                    acc.violation("raised", f"pretty_next_run({start},{sorted(days)}) raised {type(exc).__name__}",
                                  {"start": start, "days": sorted(days)})
                    continue
                want = clock.next_run(wd, now_min, sm, set(days))
                got = clock.classify_text(text, start)
                ok = got[0] == want[0] and (want[0] != "next" or got[1] == want[1])
                if not ok:
                    mech = f"next-run-wrong:{want[0]}->{got[0]}"
                    if got[0] == "next" and got[1] is not None and got[1] not in days:
                        mech = "names-unselected-weekday"
                    acc.violation(mech,
                                  f"{zone} local {WD[wd]} {now_min // 60:02d}:{now_min % 60:02d} (UTC {WD[utc.weekday()]} {utc:%H:%M}), "
                                  f"days {[WD[d] for d in sorted(days)]}, start {start}: got {text!r}, want {want[0]}"
                                  + (f" {WD[want[1]]}" if want[0] == 'next' else ""),
                                  {"start": start, "days": sorted(days), "got": text, "want": [want[0], WD[want[1]]], "zone": zone, "now": now})

    def _clock_moves_during_the_call(self, case, acc):
        """Midnight (or the start minute) passes while pretty_next_run is running: at every line boundary of the call the wall
        clock is moved by half a minute; the answer must be right for the instant before or the instant after."""
        from ..monitors import preempt

        zone, now = case["zone"], case["now"]
        clock.set_zone(zone)
        loc = clock.local(zone, now)
        midnight = now - (loc.hour * 3600 + loc.minute * 60 + loc.second) + 86400
        f = self.tools.pretty_next_run
        r = env.rng("C13", "moving", zone, now)
        for t0, start in ((midnight - 15, "12:00"), (midnight - 15, "00:00"), (midnight - 43200 - 15, "12:00")):
            if clock.local(zone, t0 + 30).utcoffset() != clock.local(zone, t0).utcoffset():
                continue
            for days in [ALL_SETS[r.randrange(1, 128)] for _ in range(6)] + [frozenset({clock.local(zone, t0).weekday()}), frozenset({clock.local(zone, t0 + 30).weekday()})]:
                dayset = {self.members[d] for d in days}
                sm = int(start[:2]) * 60 + int(start[3:])
                wants = []
                for t_ in (t0, t0 + 30):
                    l_ = clock.local(zone, t_)
                    wants.append(clock.next_run(l_.weekday(), l_.hour * 60 + l_.minute, sm, set(days)))
                with clock.virtual_time(t0) as traveller:
                    k = 0
                    while True:
                        k += 1
                        traveller.move_to(float(t0))
                        res, moved, n = preempt._run_with_preemption(lambda: f(start, dayset), lambda: traveller.shift(30), str(env.SRC), at=k)
                        if k > n:
                            break
                        acc.ev()
                        acc.count("calls_during_which_the_clock_moved")
                        if isinstance(res, preempt.Raised):
                            acc.violation("raised:clock-moved-during-the-call", f"pretty_next_run({start},{sorted(days)}) raised {res!r} when the clock moved during the call", {})
                            continue
                        got = clock.classify_text(res, start)
                        if not any(got[0] == w[0] and (w[0] != "next" or got[1] == w[1]) for w in wants):
                            acc.violation("next-run-wrong:clock-moved-during-the-call", f"{zone}: the clock went from {clock.local(zone, t0):%a %H:%M:%S} to "
                                          f"{clock.local(zone, t0 + 30):%a %H:%M:%S} while pretty_next_run({start}, {[WD[d] for d in sorted(days)]}) was running (at line boundary {k}): "
                                          f"it answered {res!r}; right before it is {wants[0][0]}, right after {wants[1][0]}",
                                          {"zone": zone, "t0": t0, "start": start, "days": sorted(days), "got": res})

    def run_case(self, case, acc, ctx):
        import calendar

        if case.get("kind") == "clock_moves":
            self._clock_moves_during_the_call(case, acc)
            return

        zone, now = case["zone"], case["now"]
        # process-wide settings a host application may have changed for its own purposes
        calendar.setfirstweekday((calendar.MONDAY, calendar.SUNDAY, calendar.SATURDAY, calendar.WEDNESDAY)[now % 4])
        if now % 5 == 0:
            now = now - now % 60 + 59 + (0.5, 0.999, 0.001)[now % 3]     # the last second before the next minute
        clock.set_zone(zone)
        loc = clock.local(zone, now)
        utc = datetime.fromtimestamp(now, timezone.utc)
        wd, now_min = loc.weekday(), loc.hour * 60 + loc.minute
        r = env.rng("C13", "grid", zone, now)
        now_i = int(now)
        grid = {(now_min - 1) % 1440, now_min, (now_min + 1) % 1440, 0, 1439, (now_min - 60) % 1440, (now_min + 60) % 1440}
        while len(grid) < 7 + case["extra"]:
            grid.add(r.randrange(1440))
        grid = sorted(grid)
        f = self.tools.pretty_next_run
        # other parts of the library have been used earlier, at another time: a listing that failed to parse and one that parsed
        from ..ref import replies as _rp

        with clock.virtual_time(now - 3 * 86400 - 4000 if now_i % 3 else now - 40):
            for mask in ((0x54, 0xFF) if now_i % 2 else ()):     # the failing one last: nothing afterwards tidies up behind it
                try:
                    self.parser.get_schedules(_rp.schedules([_rp.schedule_record(0, 0x02, now_i, now_i + 60), _rp.schedule_record(1, mask, now_i, now_i + 60)]))
                except Exception:
                    acc.count("earlier_listing_that_failed")
        with clock.virtual_time(now) as traveller:
            self._pass(acc, f, zone, now, wd, now_min, utc, grid, ALL_SETS)
            # the process keeps running: the same questions again 7, 61 and 200 minutes later (often still the same local day)
            for later in (420, 3660, 12000):
                t2 = now + later
                traveller.move_to(float(t2))
                loc2 = clock.local(zone, t2)
                some = [ALL_SETS[(now_i + k * 37) % 128] for k in range(24)]
                self._pass(acc, f, zone, t2, loc2.weekday(), loc2.hour * 60 + loc2.minute, datetime.fromtimestamp(t2, timezone.utc), grid, some)
            traveller.move_to(float(now))
            # through the schedule object
            for _ in range(8):
                days = r.choice(ALL_SETS)
                sm = r.choice(grid)
                start = f"{sm // 60:02d}:{sm % 60:02d}"
                # built by hand the recurring flag is the caller's business; the days decide when it runs next
                recurring = bool(days) if r.random() < 0.5 else r.random() < 0.5
                dset = {self.members[d] for d in days}
                sch = self.parser.SwitcherSchedule("0", recurring, frozenset(dset) if r.random() < 0.3 else dset, start, "00:00")
                acc.ev()
                want = clock.next_run(wd, now_min, sm, set(days))
                got = clock.classify_text(sch.display, start)
                if not (got[0] == want[0] and (want[0] != "next" or got[1] == want[1])):
                    acc.violation(f"display-wrong:{want[0]}->{got[0]}", f"SwitcherSchedule.display {sch.display!r}, want {want}",
                                  {"start": start, "days": sorted(days), "got": sch.display})
            # ... and through a listing parsed from a device reply: one-time records (no days) dated yesterday, today, tomorrow,
            # next week; recurring ones with any day set
            recs = []
            for k2, day_off in enumerate((0, 1, -1, 7, 2, 0)):
                sm = r.choice(grid)
                mask = 0 if k2 < 4 else sum(2 << d for d in r.choice(ALL_SETS))
                eps = clock.epochs_of(zone, (loc + timedelta(days=day_off)).date(), sm // 60, sm % 60)
                if not eps:
                    continue
                recs.append((k2, mask, eps[0], sm))
            try:
                listed = {s_.schedule_id: s_ for s_ in self.parser.get_schedules(_rp.schedules([_rp.schedule_record(k2, mask, e0, e0 + 1800) for k2, mask, e0, _ in recs]))}
            except Exception as exc:
                acc.violation("raised", f"parsing a listing of {len(recs)} records raised {type(exc).__name__}: {exc}", {"zone": zone, "now": now})
                listed = {}
            for k2, mask, e0, sm in recs:
                s_ = listed.get(str(k2))
                if s_ is None:
                    continue
                acc.ev()
                acc.count("displays_of_listed_schedules")
                start = f"{sm // 60:02d}:{sm % 60:02d}"
                days = {d for d in range(7) if mask & (2 << d)}
                want = clock.next_run(wd, now_min, sm, days)
                got = clock.classify_text(s_.display, start)
                if not (got[0] == want[0] and (want[0] != "next" or got[1] == want[1])):
                    acc.violation(f"display-wrong:{want[0]}->{got[0]}:listed", f"{zone}: listed schedule (days {sorted(days)}, start {start}, record dated "
                                  f"{clock.local(zone, e0).date()}, today is {loc.date()}) displays {s_.display!r}, want {want[0]}",
                                  {"start": start, "days": sorted(days), "got": s_.display, "zone": zone, "now": now})
            # the device is polled again later the same local day: the very same records, parsed again
            if recs and now_min < 1290:
                t3 = now + 2 * 3600 + 420
                loc3 = clock.local(zone, t3)
                if loc3.date() == loc.date():
                    traveller.move_to(float(t3))
                    try:
                        raw_ = _rp.schedules([_rp.schedule_record(k2, mask, e0, e0 + 1800) for k2, mask, e0, _ in recs])
                        if now_i % 2:
                            # as the API hands it out: through the response class (byte-identical reply, later clock)
                            from aioswitcher.api.messages import SwitcherGetSchedulesResponse as _Resp

                            traveller.move_to(float(now))
                            _Resp(raw_)
                            traveller.move_to(float(t3))
                            again = {s_.schedule_id: s_ for s_ in _Resp(raw_).schedules}
                        else:
                            again = {s_.schedule_id: s_ for s_ in self.parser.get_schedules(raw_)}
                    except Exception as exc:
                        acc.violation("raised", f"parsing the same listing again later the same day raised {type(exc).__name__}: {exc}", {"zone": zone, "now": now})
                        again = {}
                    for k2, mask, e0, sm in recs:
                        s_ = again.get(str(k2))
                        if s_ is None:
                            continue
                        acc.ev()
                        start = f"{sm // 60:02d}:{sm % 60:02d}"
                        days = {d for d in range(7) if mask & (2 << d)}
                        want = clock.next_run(loc3.weekday(), loc3.hour * 60 + loc3.minute, sm, days)
                        got = clock.classify_text(s_.display, start)
                        if not (got[0] == want[0] and (want[0] != "next" or got[1] == want[1])):
                            acc.violation(f"display-wrong:{want[0]}->{got[0]}:listed-again-later", f"{zone}: the same record (days {sorted(days)}, start {start}) listed again at "
                                          f"{loc3:%a %H:%M} (first at {loc:%H:%M}) displays {s_.display!r}, want {want[0]}", {"start": start, "days": sorted(days), "zone": zone})
                    traveller.move_to(float(now))
            # the host zone changes while the process lives: the very same listing bytes, parsed under another zone, read in that zone
            if recs:
                z2 = ZONES[(ZONES.index(zone) + 1 + now_i % (len(ZONES) - 1)) % len(ZONES)] if zone in ZONES else "UTC"
                clock.set_zone(z2)
                loc4 = clock.local(z2, now)
                try:
                    raw_ = _rp.schedules([_rp.schedule_record(k2, mask, e0, e0 + 1800) for k2, mask, e0, _ in recs])
                    other = {s_.schedule_id: s_ for s_ in self.parser.get_schedules(raw_)}
                except Exception as exc:
                    acc.violation("raised", f"parsing the same listing under {z2} raised {type(exc).__name__}: {exc}", {"zone": z2, "now": now})
                    other = {}
                for k2, mask, e0, sm in recs:
                    s_ = other.get(str(k2))
                    if s_ is None:
                        continue
                    acc.ev()
                    st_loc = clock.local(z2, e0)
                    sm2 = st_loc.hour * 60 + st_loc.minute
                    start2 = f"{sm2 // 60:02d}:{sm2 % 60:02d}"
                    days = {d for d in range(7) if mask & (2 << d)}
                    want = clock.next_run(loc4.weekday(), loc4.hour * 60 + loc4.minute, sm2, days)
                    got = clock.classify_text(s_.display, start2)
                    if not (got[0] == want[0] and (want[0] != "next" or got[1] == want[1])):
                        acc.violation(f"display-wrong:{want[0]}->{got[0]}:listed-after-zone-change", f"the same record (days {sorted(days)}, start epoch {e0}) listed again after the "
                                      f"host zone changed from {zone} to {z2} (local {loc4:%a %H:%M}, start there {start2}) displays {s_.display!r}, want {want[0]}",
                                      {"days": sorted(days), "zone": z2})
                clock.set_zone(zone)
        differs = wd != utc.weekday()
        near_midnight = now_min < 120 or now_min >= 1320
        if differs or near_midnight:
            acc.sig(env.sig(zone, wd, now_min // 30, differs))
        acc.count("cases")
        acc.count("cases_local_weekday_differs_from_utc", int(differs))
        acc.count(f"local_weekday_{WD[wd]}")
        if differs:
            acc.sample({"zone": zone, "virtual_now_utc": utc.isoformat(), "local": loc.isoformat(),
                        "grid_start_minutes": grid, "day_sets": 128})


    def thread_pairs(self, ctx):
        from ..monitors.threadops import FROZEN_AT

        clock.set_zone("Asia/Jerusalem")
        loc = clock.local("Asia/Jerusalem", FROZEN_AT)
        wd, now_min = loc.weekday(), loc.hour * 60 + loc.minute
        f = self.tools.pretty_next_run

        def judge(days, start):
            sm = int(start[:2]) * 60 + int(start[3:])
            want = clock.next_run(wd, now_min, sm, set(days))

            def j(res):
                if not isinstance(res, str):
                    return f"{res!r}"
                got = clock.classify_text(res, start)
                ok = got[0] == want[0] and (want[0] != "next" or got[1] == want[1])
                return None if ok else f"returned {res!r}, want {want[0]}" + (f" {WD[want[1]]}" if want[0] == "next" else "")
            return j

        da, db, dc = {(wd + 2) % 7}, {(wd + 4) % 7, (wd + 5) % 7}, {wd, (wd + 1) % 7}
        m = lambda ds: {self.members[d] for d in ds}
        return [("pretty_next_run({+2d}) || pretty_next_run({+4d,+5d})", lambda: f("12:00", m(da)), lambda: f("12:00", m(db)), judge(da, "12:00"), judge(db, "12:00")),
                ("pretty_next_run({today,+1d}) || pretty_next_run({+2d})", lambda: f("00:10", m(dc)), lambda: f("23:50", m(da)), judge(dc, "00:10"), judge(da, "23:50"))]


PROP = C13()
