"""C05 - a status broadcast is decoded into exactly the device the sender described.

A reference encoder (tied to the real captures by the self-test) generates
broadcasts for all 9 types over the full field domains; they are sent over
loopback UDP to a running SwitcherBridge; every device object delivered to the
callback is compared field by field with the encoder's input.  The device-id
field carries a unique tag, so a delivery identifies the datagram that caused it.
"""

import asyncio

from .. import env, gen
from ..fakes import udp
from ..prop import Prop
from ..ref import broadcast as rb
from ..ref import clock
from ..selftest import broadcast_captures

BATCH = 40


class C05(Prop):
    id = "C05"
    tour_noisy = False
    level = "exploration"
    technique = "reference broadcast encoder -> loopback UDP -> running SwitcherBridge; callback-log monitor with unique tags and sentinel barriers; field-by-field oracle"
    rule = ("case = batch of 40 encoder-built broadcasts (all 9 types, both states) sent to a running bridge, closed by a sentinel broadcast; "
            "each of the 10 IPv4/MAC byte positions sweeps 0..255 across cases, names of 1..32 UTF-8 bytes in 5 scripts (every 7th exactly "
            "32 bytes), every 8th broadcast re-sent unchanged (two deliveries expected), half of the device ids re-used from earlier batches with "
            "new details, host zone rotating over 14 zones, batches alternating between a custom port and the library's default ports, power/time/temperature over their full ranges with edges, positions 0..100, all enumerants, random filler in non-field "
            "bytes for half of them; distinct = (type, all field values); non-trivial = all (each is compared field by field)")
    level_text = ("Held-on-observed over tens of thousands of generated broadcasts through the real UDP path: exactly one delivery per "
                  "broadcast, of the class of its category, with every field equal to the encoder's input (OFF => power 0, current 0.0, "
                  "remaining 00:00:00).")
    level_note = "trusts vf/ref/broadcast.py (decodes all 18 shipped captures to the values the repo's tests assert and re-encodes them byte-identically)"
    assumptions = ["shutters carry no on/off state: device_state of shutters is not compared",
                   "amps: any one-decimal value within 0.05 of watts/220",
                   "kernel datagram loss (drops>0 in /proc/net/udp) makes a batch inconclusive, not violated"]
    warnings_as_errors = False   # unknown models are *reported by a warning*: under an error filter that is an exception by design
    anchors = ["aioswitcher.bridge:_parse_device_from_datagram", "aioswitcher.bridge:DatagramParser.get_ip_type1",
               "aioswitcher.bridge:DatagramParser.get_ip_type2", "aioswitcher.bridge:DatagramParser.get_mac",
               "aioswitcher.bridge:DatagramParser.get_name", "aioswitcher.bridge:DatagramParser.get_shutter_position",
               "aioswitcher.bridge:DatagramParser.get_thermostat_remote_id", "aioswitcher.bridge:UdpClientProtocol.datagram_received"]
    min_evaluations = {"quick": 40_000, "thorough": 400_000}
    budget_s = {"quick": 300, "thorough": 900}

    def selftest(self):
        broadcast_captures()

    async def setup(self, ctx):
        from aioswitcher.bridge import SwitcherBridge

        self.rig = udp.UdpRig(ctx["shard"])
        self.rig.install(asyncio.get_running_loop())
        self.port, self.port2 = self.rig.free_ports(2)
        self.bridge = SwitcherBridge(self.rig.log.callback, [self.port, self.port2])
        await self.bridge.start()
        self.ports = [self.port]
        self.default_bridge = None
        if ctx["shard"] == 0 and all(udp.can_bind(p) for p in (20002, 10002, 20003, 10003)):
            # (one worker only: all workers of a check share the namespace) inside the private network namespace the library's own default ports are free: use them as well
            self.default_bridge = SwitcherBridge(self.rig.log.callback)
            await self.default_bridge.start()
            self.ports += [20002, 10002, 20003, 10003]
        self.tp = await udp.probe_bridges(self.rig)
        self.tag = 0
        self.pool = []
        import time_machine

        self._tm = time_machine.travel(1_780_000_000.0, tick=False)
        self._traveller = self._tm.start()   # device ids that keep broadcasting with changing details, as real devices do

    async def teardown(self, ctx):
        self._tm.stop()
        await self.bridge.stop()
        for b, _, _ in self.tp:
            await b.stop()
        if self.default_bridge is not None:
            await self.default_bridge.stop()
        self.rig.uninstall(asyncio.get_running_loop())

    def cases(self, tier, seed, shard, nshards):
        n = {"quick": 3_200, "thorough": 160_000}[tier]
        for i in range(shard, n, nshards):
            yield {"i": i, "seed": seed}

    async def run_case(self, case, acc, ctx):
        i = case["i"]
        r = env.rng("C05", case["seed"], i)
        log = self.rig.log
        log.clear()
        if not hasattr(self, "keep"):
            from ..monitors.keepsake import Keep

            self.keep = Keep(limit=240)
        # devices delivered in earlier batches were kept by their consumer: they still say what their datagrams said
        self.keep.verify(acc, "delivered-device-changed-later", "the time later broadcasts had been handled")
        zone = env.ZONES[env.sig("zone", i) % len(env.ZONES)]
        clock.set_zone(zone)     # nothing in a broadcast depends on the host zone: durations are durations
        if env.sig("own", i) % 40 == 7:
            # who holds what: a bridge started by a helper that keeps neither the bridge nor the consumer object around
            descs = [gen.broadcast_desc(r, m, i * 9 + n, f"{0xC00000 + (i * 9 + n) % 0xFFFF:06x}") for n, m in enumerate(gen.MODELS)]
            keep = bool(env.sig("own-keep", i) % 2)
            got, verdict = await udp.unowned_bridge_probe(self.rig, descs, keep_bridge=keep)
            acc.ev(len(descs))
            acc.count("broadcasts_to_a_bridge_nobody_holds" if not keep else "broadcasts_to_a_bridge_whose_consumer_nobody_holds", len(descs))
            how = "the bridge object and the callback's owner" if not keep else "the callback's owner"
            if len(got) != len(descs) and verdict == "unknown":
                acc.inconclusive_because("unreferenced-bridge probe: datagrams dropped or still queued by the kernel")
            elif len(got) != len(descs):
                acc.violation("delivery-count-wrong:unreferenced-" + ("bridge" if not keep else "consumer"), f"{len(descs)} well-formed broadcasts sent to a started bridge "
                              f"({how} are referenced by nobody else, garbage was collected): {len(got)} devices delivered", {"kept_bridge": keep})
            else:
                for dev, d in zip(got, descs):
                    for field, gotv, want in rb.compare_device(dev, d):
                        acc.violation(f"field-wrong:{rb.MODELS[d['model']][2]}:{field}", f"{d['model']} (unreferenced bridge): {field} = {gotv!r}, want {want!r}", {"desc": d})
        port = self.ports[i % len(self.ports)]
        if (i // max(1, ctx["nshards"])) % 6 == 1:
            from aioswitcher.bridge import SwitcherBridge as _B

            other = _B(self.rig.log.callback, [self.port]) if port == self.port else _B(self.rig.log.callback)
            await other.stop()        # "stop is safe before start": also for everybody else
            acc.count("stops_of_an_unstarted_bridge_on_the_same_ports")
        if (i // max(1, ctx["nshards"])) % 6 == 3:
            # the same bridge object stopped and started again: broadcasts after a restart are as well-formed as before
            await self.bridge.stop()
            await asyncio.sleep(0)
            await asyncio.sleep(0)
            await self.bridge.start()
            acc.count("bridge_restarts")
        sent = []                # (desc, datagram) in send order, exact repeats included
        if i % 4 == 2:
            log.raise_on = lambda dev, n: n % 7 == 0     # the user's callback fails now and then: the next broadcast is still delivered
        self.vnow = getattr(self, "vnow", 1_780_000_000.0) + r.choice([0.4, 13, 61, 3601, 86400 + 17, -20, -5000])
        self._traveller.move_to(float(self.vnow))
        for k in range(BATCH):
            j = i * BATCH + k
            if self.pool and r.random() < 0.5:
                tag = r.choice(self.pool)      # a device seen before, now with other details
            else:
                self.tag = (self.tag + 1) % udp.SENTINEL_BASE
                tag = f"{self.tag:06x}"
                if len(self.pool) < 16:
                    self.pool.append(tag)
                else:
                    self.pool[r.randrange(16)] = tag
            model = gen.MODELS[j % 9]
            d = gen.broadcast_desc(r, model, j, tag)
            filler = r.randbytes(168) if k % 2 else None
            data = rb.encode(d, filler=filler)
            sent.append((d, data))
            self.rig.send(port, data)
            if k % 8 == 1:
                # the same device again with exactly one detail changed (one octet of its MAC or IP, its key, one letter of its
                # name, its state): every other byte of the datagram is identical to the previous one
                d2 = dict(d)
                what = r.choice(["mac", "mac_last", "ip", "device_key", "name", "state"])
                if what.startswith("mac"):
                    parts = d["mac"].split(":")
                    pos = 5 if what == "mac_last" else r.randrange(6)
                    parts[pos] = f"{(int(parts[pos], 16) + r.randrange(1, 255)) % 256:02X}"
                    d2["mac"] = ":".join(parts)
                elif what == "ip":
                    parts = d["ip"].split(".")
                    pos = r.randrange(4)
                    parts[pos] = str((int(parts[pos]) + r.randrange(1, 255)) % 256)
                    d2["ip"] = ".".join(parts)
                elif what == "device_key":
                    d2["device_key"] = f"{(int(d['device_key'], 16) + r.randrange(1, 255)) % 256:02x}"
                elif what == "name" and d["name"].isascii() and len(d["name"]) >= 2:
                    d2["name"] = d["name"][:-1] + ("x" if d["name"][-1] != "x" else "y")
                else:
                    d2 = gen.broadcast_desc(r, model, j, tag)
                data2 = rb.encode(d2, filler=filler)
                sent.append((d2, data2))
                self.rig.send(port, data2)
                acc.count("repeats_with_one_detail_changed")
            if k % 10 == 3:
                # what else is on the wire: an undecodable frame of the same device, foreign bytes, an unknown model
                bad = bytearray(data)
                if k % 20 == 3:
                    bad[42:74] = b"n" * 31 + bytes([r.choice([0xD7, 0xC3, 0xE2, 0xF0])])      # a full name field cut in the middle of a character
                else:
                    bad[42] = 0xFF
                self.rig.send(port, bytes(bad))
                self.rig.send(port, r.randbytes(r.randrange(0, 120)))
                unk = bytearray(data)
                unk[74:76] = b"\xee\xee"
                self.rig.send(port, bytes(unk))
                acc.count("junk_datagrams_between_broadcasts", 3)
            if k % 8 == 5:
                # a device re-broadcasts its unchanged status: the very same bytes again are one more well-formed broadcast
                sent.append((d, data))
                self.rig.send(port, data)
                acc.count("exact_repeats_sent")
        res = await self.rig.barrier(port)
        log.raise_on = None
        if res == "dropped":
            acc.count("batches_with_kernel_drops")
            acc.inconclusive_because("kernel dropped datagrams (drops>0 in /proc/net/udp)")
            return
        delivered, others = [], []
        for kind, payload in log.events:
            if kind == "device":
                if not udp.is_sentinel(payload):
                    delivered.append(payload)
            else:
                others.append((kind, payload))
        if res == "lost":
            acc.violation("sentinel-never-delivered", "a valid sentinel broadcast was consumed by the bridge but never reached the callback",
                          {"events": [str(o) for o in others][:5]})
        acc.ev(len(sent))
        acc.count(f"batches_on_port_{'default' if port in (20002, 10002, 20003, 10003) else 'custom'}")
        acc.count("devices_delivered", len(delivered))
        for d, _ in sent:
            acc.count(f"sent_{d['model']}")
            acc.sig(env.sig(sorted((k2, str(v)) for k2, v in d.items() if k2 != "device_id")))
        # loopback UDP between one socket pair is ordered and every broadcast yields exactly one delivery:
        # the n-th delivery belongs to the n-th datagram
        if len(delivered) != len(sent):
            want_ids = [d["device_id"] for d, _ in sent]
            got_ids = [getattr(x, "device_id", "?") for x in delivered]
            pos = next((n for n, (a, b) in enumerate(zip(want_ids, got_ids)) if a != b), min(len(want_ids), len(got_ids)))
            d, data = sent[min(pos, len(sent) - 1)]
            cat = rb.MODELS[d["model"]][2]
            again = pos > 0 and sent[pos][1] == sent[pos - 1][1] if pos < len(sent) else False
            mech = (f"exact-repeat-not-delivered:{cat}" if again else f"delivery-count-wrong:{cat}") if len(delivered) < len(sent) else f"delivered-too-often:{cat}"
            acc.violation(mech, f"{len(sent)} well-formed broadcasts sent to port {port} in {zone}, {len(delivered)} devices delivered; first difference at #{pos} "
                          f"({d['model']}); other events: {others[:3]}", {"desc": d, "datagram": data.hex(), "events": [str(o) for o in others][:5]})
        else:
            for dev, (d, data) in zip(delivered, sent):
                cat = rb.MODELS[d["model"]][2]
                for field, got, want in rb.compare_device(dev, d):
                    acc.violation(f"field-wrong:{cat}:{field}", f"{d['model']} {d['state']} on port {port}, host zone {zone}: {field} = {got!r}, want {want!r}",
                                  {"desc": d, "datagram": data.hex(), "field": field, "got": str(got), "want": str(want), "zone": zone})
        if len(delivered) == len(sent):
            for dev_, (d_, _) in list(zip(delivered, sent))[:: max(1, len(sent) // 6)]:
                self.keep.add(dev_, f"{d_['model']} device object delivered in batch {i}")
        others = [o for o in others if not (o[0] == "loop_exc" and ("CallbackBoom" in o[1] or "UnicodeDecodeError" in o[1] or "codec can't decode" in o[1]))
                  and not (o[0] == "warning" and "unknown" in o[1].lower())]
        if others:
            acc.violation("noise-on-well-formed-broadcast", f"well-formed broadcasts caused {others[:3]}", {"events": [str(o) for o in others][:8]})
        if res == "ok" and len(delivered) == len(sent) and sent and i % 2:
            # the consumer keeps the objects it was handed and writes into them (an optimistic state change, a nickname); then
            # the same device broadcasts the very same bytes again: what is delivered is what the datagram says
            d_edit, data_edit = sent[-1]
            victim = delivered[-1]
            self.keep.forget(victim)
            before_n = len([1 for k2, p2 in log.events if k2 == "device" and not udp.is_sentinel(p2)])
            try:
                victim.name = "renamed by the consumer"
                victim.device_state = type(victim.device_state)(next(x for x in type(victim.device_state) if x is not victim.device_state).value)
                for attr, val in (("power_consumption", 4321), ("electric_current", 19.6), ("remaining_time", "11:11:11"), ("position", 3), ("target_temperature", 31)):
                    if hasattr(victim, attr):
                        setattr(victim, attr, val)
            except Exception:
                pass     # frozen or validated objects are fine too
            self.rig.send(port, data_edit)
            res_e = await self.rig.barrier(port)
            acc.count("repeats_after_the_consumer_edited_the_delivered_object")
            if res_e == "ok":
                now_dev = [p2 for k2, p2 in log.events if k2 == "device" and not udp.is_sentinel(p2)]
                acc.ev()
                if len(now_dev) - before_n != 1:
                    acc.violation(f"delivery-count-wrong:{rb.MODELS[d_edit['model']][2]}:after-consumer-edit", f"exact repeat after the consumer edited the delivered object: "
                                  f"{len(now_dev) - before_n} deliveries", {"desc": d_edit})
                else:
                    for field, got, want in rb.compare_device(now_dev[-1], d_edit):
                        acc.violation(f"field-wrong:{rb.MODELS[d_edit['model']][2]}:{field}:after-consumer-edit", f"{d_edit['model']}: after the consumer had written into the "
                                      f"object delivered for the same bytes, {field} = {got!r}, the datagram says {want!r}", {"desc": d_edit, "field": field})
            elif res_e == "dropped":
                acc.inconclusive_because("kernel dropped datagrams (drops>0 in /proc/net/udp)")
        if res == "ok" and len(delivered) == len(sent) and sent:
            # the same bytes once more, this time to another port of the same bridge (devices broadcast to the old and the new
            # port): one more well-formed broadcast, one more delivery
            other = self.port2 if port == self.port else (self.port if port == self.port2 else [p for p in (20002, 10002, 20003, 10003) if p != port][i % 3])
            d_last, data_last = sent[-1]
            n_before = len([1 for k2, p2 in log.events if k2 == "device" and not udp.is_sentinel(p2)])
            self.rig.send(port, data_last)      # original and copy back to back, nothing in between
            self.rig.send(other, data_last)
            res2 = await self.rig.barrier(port)
            res2 = await self.rig.barrier(other) if res2 == "ok" else res2
            acc.count("copies_sent_to_another_port_of_the_same_bridge")
            if res2 == "ok":
                now_dev = [p2 for k2, p2 in log.events if k2 == "device" and not udp.is_sentinel(p2)]
                acc.ev(2)
                if len(now_dev) - n_before != 2:
                    acc.violation(f"delivery-count-wrong:{rb.MODELS[d_last['model']][2]}:copy-on-another-port", f"the same well-formed broadcast sent to port {port} and, "
                                  f"right after, to port {other} of the same bridge: {len(now_dev) - n_before} devices delivered, want 2", {"desc": d_last})
                else:
                    for dev_ in now_dev[-2:]:
                        for field, got, want in rb.compare_device(dev_, d_last):
                            acc.violation(f"field-wrong:{rb.MODELS[d_last['model']][2]}:{field}", f"{d_last['model']} copy on another port: {field} = {got!r}, want {want!r}", {"desc": d_last})
            elif res2 == "dropped":
                acc.inconclusive_because("kernel dropped datagrams (drops>0 in /proc/net/udp)")
        if i % 160 == 1:
            d, data = sent[0]
            acc.sample({"port": port, "host_zone": zone, "desc": d, "datagram": data.hex()[:120] + "...", "delivered_as": repr(delivered[0] if delivered else "-")[:300]})


    def thread_pairs(self, ctx):
        r = env.rng("C05", "threads")
        (b1, p1, g1), (b2, p2, g2) = self.tp
        if p1 is None or p2 is None:
            return []
        d = {m: gen.broadcast_desc(r, m, 7, f"{0xD00000 + n:06x}") for n, m in enumerate(("BREEZE", "V4", "RUNNER", "POWER_PLUG", "BREEZE"))}
        d2 = gen.broadcast_desc(r, "BREEZE", 11, "d000aa")
        enc = {m: rb.encode(x) for m, x in d.items()}
        nomagic = bytearray(enc["V4"])
        nomagic[0:2] = b"\x00\x00"
        unknown = bytearray(enc["V4"])
        unknown[74:76] = b"\xee\x01"
        H, J = udp.handed_over, udp.judge_delivery
        return [("first broadcast ever: Breeze || Breeze", H(p1, g1, enc["BREEZE"]), H(p2, g2, rb.encode(d2)), J(d["BREEZE"]), J(d2)),
                ("frame without the magic || genuine broadcast", H(p1, g1, bytes(nomagic)), H(p2, g2, enc["RUNNER"]), J(None), J(d["RUNNER"])),
                ("genuine broadcast || frame without the magic", H(p1, g1, enc["POWER_PLUG"]), H(p2, g2, bytes(nomagic)), J(d["POWER_PLUG"]), J(None)),
                ("unknown model || water heater", H(p1, g1, bytes(unknown)), H(p2, g2, enc["V4"]), J("unknown"), J(d["V4"])),
                ("runner || plug", H(p1, g1, enc["RUNNER"]), H(p2, g2, enc["POWER_PLUG"]), J(d["RUNNER"]), J(d["POWER_PLUG"]))]


PROP = C05()
