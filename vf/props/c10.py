"""C10 - listed schedules decode exactly; a created schedule reads back unchanged."""

import asyncio
from datetime import timedelta
from .. import env, gen, tcpwork
from ..fakes import tcp_device as td
from ..prop import Prop
from ..ref import clock, frames, replies
from ..selftest import reply_captures
from .c11 import instants_for
from .c14 import want as want_duration

DAY_BITS = {"MONDAY": 0x02, "TUESDAY": 0x04, "WEDNESDAY": 0x08, "THURSDAY": 0x10, "FRIDAY": 0x20, "SATURDAY": 0x40, "SUNDAY": 0x80}
EVEN_MASKS = [m for m in range(0, 255, 2)]  # 0 (non recurring) + the 127 day masks


def days_of(mask):
    return {n for n, b in DAY_BITS.items() if mask & b}


def minutes(hhmm):
    return int(hhmm[:2]) * 60 + int(hhmm[3:])


class C10(Prop):
    id = "C10"
    level = "exploration"
    technique = "reference reply encoder + real parser under a switched host zone (direct and via api.get_schedules over TCP); create_schedule record captured on the wire and served back"
    rule = ("case = (zone, virtual now); part A: replies with 0..8 whole 16-byte records (slot ids 0..255, the 127 day masks + 00, start/end "
            "instants on and around the zone's UTC-offset transitions, year ends, leap days) are parsed directly and through "
            "api.get_schedules; part B: create_schedule(start, end, days) is called, its 12-byte record is lifted from the captured frame, "
            "given a slot id, padded to 16 bytes, listed back and parsed; distinct = (zone, record contents); non-trivial = records whose "
            "instants fall on a transition day, or whose local date differs from the UTC date, or with a non-whole-hour zone offset, and all round trips")
    level_text = ("Held-on-observed over 14 zones x transition-adjacent and ordinary dates: every parsed schedule is compared field by field "
                  "(id, recurrence, exact day set, local HH:MM start/end, duration) with the encoder's input, and every created schedule is read back.")
    level_note = "trusts vf/ref/replies.py record layout (checked against the two-schedule capture), zoneinfo, time_machine"
    assumptions = ["two records with the same slot id: only '<= 1 schedule per id and it equals one of them' is required",
                   "odd day masks are not generated; clock times in a spring-forward gap are skipped"]
    anchors = ["aioswitcher.schedule.parser:get_schedules", "aioswitcher.schedule.parser:ScheduleParser.get_days",
               "aioswitcher.schedule.parser:ScheduleParser.get_start_time", "aioswitcher.api:SwitcherType1Api.get_schedules",
               "aioswitcher.api:SwitcherType1Api.create_schedule", "aioswitcher.api.messages:SwitcherGetSchedulesResponse.__post_init__"]
    min_evaluations = {"quick": 20_000, "thorough": 200_000}
    budget_s = {"quick": 300, "thorough": 900}

    def selftest(self):
        reply_captures()

    async def setup(self, ctx):
        self.rig = tcpwork.Rig(ctx["shard"])
        self.dev = await self.rig.device()
        self.dev2 = await self.rig.device()
        from aioswitcher.api import messages

        self.messages = messages
        self.inst = {}

    async def teardown(self, ctx):
        await self.rig.close()

    def cases(self, tier, seed, shard, nshards):
        n = {"quick": 2_800, "thorough": 280_000}[tier]
        for i in range(shard, n, nshards):
            yield {"i": i, "seed": seed}

    def _instants(self, zone, seed):
        if zone not in self.inst:
            self.inst[zone] = instants_for(zone, env.rng("C10", seed, zone), 60)
        return self.inst[zone]

    def _judge_set(self, acc, schedules, recs, zone, via):
        """recs: list of (slot, mask, start_epoch, end_epoch)."""
        by_id = {}
        for rec in recs:
            by_id.setdefault(str(rec[0]), []).append(rec)
        got = {}
        for s in schedules:
            if s.schedule_id in got:
                acc.violation("duplicate-id-in-set", f"{via}: two schedules with id {s.schedule_id}", {})
            got[s.schedule_id] = s
        if set(got) != set(by_id):
            mech = "schedule-missing" if set(by_id) - set(got) else "schedule-invented"
            acc.violation(mech, f"{via} in {zone}: parsed ids {sorted(got)}, reply holds {sorted(by_id)}", {"records": recs})
            return
        for sid, s in got.items():
            ok_any = False
            problems = None
            for slot, mask, se, ee in by_id[sid]:
                want = {"recurring": mask != 0, "days": days_of(mask), "start_time": clock.hhmm_of(zone, se), "end_time": clock.hhmm_of(zone, ee)}
                want["duration"] = want_duration(minutes(want["start_time"]), minutes(want["end_time"]))
                have = {"recurring": s.recurring, "days": {d.name for d in s.days}, "start_time": s.start_time, "end_time": s.end_time, "duration": s.duration}
                bad = [k for k in want if want[k] != have[k]]
                if not bad:
                    ok_any = True
                    break
                problems = (bad, want, have)
            if not ok_any:
                bad, want, have = problems
                acc.violation(f"schedule-field-wrong:{bad[0]}", f"{via} in {zone}: slot {sid}: {bad[0]} = {have[bad[0]]!r}, want {want[bad[0]]!r}",
                              {"records": recs, "have": {k: (sorted(v) if isinstance(v, set) else v) for k, v in have.items()},
                               "want": {k: (sorted(v) if isinstance(v, set) else v) for k, v in want.items()}})

    async def run_case(self, case, acc, ctx):
        i = case["i"]
        r = env.rng("C10", case["seed"], i)
        zone = env.ZONES[env.sig("zone", i) % len(env.ZONES)]
        inst = self._instants(zone, case["seed"])
        now = r.choice(inst)
        clock.set_zone(zone)
        off = clock.local(zone, now).utcoffset().total_seconds()

        def rand_epoch():
            if r.random() < 0.04:
                return r.choice([0, 1, 59, 60, 86399, 86400, 2 ** 31 - 1, 2 ** 31, 2 ** 32 - 61, 2 ** 32 - 1, 0x0A0A0A0A, 0x00FEF000])
            base = r.choice(inst) + r.randrange(-2 * 86400, 2 * 86400)
            return base - base % 60 if r.random() < 0.8 else base

        def record_set(n):
            recs = []
            for _ in range(n):
                slot = r.randrange(8) if r.random() < 0.7 else r.randrange(256)
                se = rand_epoch()
                ee = min(se + r.randrange(0, 86400), 2 ** 32 - 1) if r.random() < 0.7 else rand_epoch()
                if r.random() < 0.08:
                    ee = min(se + r.choice([0, 0, 30, 59 - se % 60, 86400, 172800]), 2 ** 32 - 1)     # ends in the minute it starts in (or days later at that minute)
                recs.append((slot, r.choice(EVEN_MASKS), se, ee))
            return recs

        with clock.virtual_time(now):
            # ---- part A: direct parses
            for k in range(6):
                n = (i + k) % 9
                recs = record_set(n)
                raw = [replies.schedule_record(s, m, a, b, enabled=r.choice([0, 1]), state=r.choice([0, 1]), trailer=r.randbytes(4)) for s, m, a, b in recs]
                reply = replies.schedules(raw, header=r.randbytes(45) if k % 2 else None)
                acc.ev(max(1, n))
                try:
                    resp = self.messages.SwitcherGetSchedulesResponse(reply)
                except Exception as exc:
                    acc.violation(f"parse-raised:{type(exc).__name__}", f"reply with {n} records in {zone} raised {type(exc).__name__}: {exc}", {"records": recs, "reply": reply.hex()})
                    continue
                self._judge_set(acc, resp.schedules, recs, zone, "direct parse")
                if k == 0 and recs:
                    # the host zone changes while the process lives (to one easily mistaken for the first: same abbreviations or
                    # same offset right now): the very same reply, parsed again, reads in the new zone's local time
                    alike = clock.confusable(zone, now, env.ZONES)
                    z2 = alike[i % len(alike)] if alike else env.ZONES[(env.ZONES.index(zone) + 1 + i % 5) % len(env.ZONES)]
                    for zz in (z2, zone):
                        clock.set_zone(zz)
                        acc.ev(n)
                        acc.count("replies_parsed_again_after_a_zone_change")
                        try:
                            again = self.messages.SwitcherGetSchedulesResponse(reply)
                        except Exception as exc:
                            acc.violation(f"parse-raised:{type(exc).__name__}", f"reply with {n} records in {zz} (after {zone}) raised {type(exc).__name__}: {exc}", {"records": recs})
                            continue
                        self._judge_set(acc, again.schedules, recs, zz, f"direct parse right after the same reply was parsed in {zone if zz == z2 else z2}")
                    clock.set_zone(zone)
                if k == 1 and zone in clock.TWINS:
                    # the twin of this zone (identical abbreviations and offsets today, another history) and records from the years in
                    # which the two disagreed: listed here, then there, then here again
                    z2, old_instants = clock.TWINS[zone]
                    old = [(7 + n_, 2 << (n_ % 7), e_, e_ + 5_400) for n_, e_ in enumerate(old_instants)]
                    old_reply = replies.schedules([replies.schedule_record(s, m, a, b) for s, m, a, b in old])
                    for zz in (zone, z2, zone):
                        clock.set_zone(zz)
                        acc.ev(len(old))
                        acc.count("old_records_listed_under_a_zone_and_its_twin")
                        try:
                            got_old = self.messages.SwitcherGetSchedulesResponse(old_reply)
                        except Exception as exc:
                            acc.violation(f"parse-raised:{type(exc).__name__}", f"reply with old records in {zz} raised {type(exc).__name__}: {exc}", {"records": old})
                            continue
                        self._judge_set(acc, got_old.schedules, old, zz, f"records from years in which {zone} and {z2} disagreed, listed under {zz}")
                    clock.set_zone(zone)
                # copies of what was parsed say the same as the originals
                import copy
                import pickle

                if k % 2 == 0 and resp.schedules:
                    for how, dup in (("copy.copy", copy.copy), ("copy.deepcopy", copy.deepcopy), ("pickle round trip", lambda o: pickle.loads(pickle.dumps(o)))):
                        acc.ev()
                        acc.count("copies_of_parsed_listings")
                        try:
                            dup_set = {dup(s_) for s_ in resp.schedules}
                            whole = dup(resp)
                        except Exception as exc:
                            acc.count(f"listing_not_duplicable_by_{how.split()[0]}")
                            continue
                        if len({rc[0] for rc in recs}) == len(recs):
                            self._judge_set(acc, dup_set, recs, zone, f"{how} of each parsed schedule")
                            self._judge_set(acc, whole.schedules, recs, zone, f"{how} of the whole response")
                # a caller clones one schedule with an extra day by editing the set it was handed: the other schedules of the same
                # listing still carry their own records' days
                listed = sorted(resp.schedules, key=lambda x_: int(x_.schedule_id))
                if len(listed) >= 2 and isinstance(listed[0].days, set):
                    first = listed[0]
                    from aioswitcher.schedule import Days as _Days

                    extra_day = next((d_ for d_ in _Days if d_ not in first.days), None)
                    if extra_day is not None:
                        first.days.add(extra_day)
                    else:
                        first.days.discard(_Days.MONDAY)
                    rest_recs = [rc for rc in recs if str(rc[0]) != first.schedule_id]
                    rest = {s_ for s_ in resp.schedules if s_.schedule_id != first.schedule_id}
                    if len({rc[0] for rc in recs}) == len(recs):
                        self._judge_set(acc, rest, rest_recs, zone, "the siblings of a schedule whose days the caller edited")
                        acc.count("sibling_checks_after_editing_one_schedule")
                for sch in resp.schedules:
                    if isinstance(sch.days, set):
                        sch.days.clear()
                        sch.days.add("edited by the caller")
                    sch.start_time = "99:99"
                acc.count("returned_schedules_edited_by_caller", len(resp.schedules))
                if resp.found_schedules != (len(recs) > 0):
                    acc.violation("found-flag-wrong", f"found_schedules={resp.found_schedules} with {len(recs)} records", {})
                for rec in recs:
                    acc.sig(env.sig(zone, rec))
                acc.count("records_parsed", n)
            acc.ev()
            empty = self.messages.SwitcherGetSchedulesResponse(b"")
            if empty.schedules or empty.found_schedules:
                acc.violation("empty-reply-has-schedules", f"empty reply parsed to {empty.schedules}", {})
            # ---- part A over TCP + part B round trip
            served = {"reply": replies.schedules([])}
            healthy = td.auto_responder(rnd=r)

            def responder(conn, idx, frame):
                if frames.classify(frame) == "get_schedules":
                    return served["reply"]
                return healthy(conn, idx, frame)

            self.dev.responder = responder
            cl = await self.rig.connect(self.dev, 1, gen.device_id(r), gen.device_key(r))
            try:
                recs = record_set(r.randrange(0, 9))
                served["reply"] = replies.schedules([replies.schedule_record(*x) for x in recs], header=r.randbytes(45))
                acc.ev()
                resp = await cl.api.get_schedules()
                self._judge_set(acc, resp.schedules, recs, zone, "api.get_schedules")
                from ..monitors.keepsake import Keep

                keep = Keep(limit=40)
                keep.add(resp, "the first listing returned on this connection")
                for s_ in resp.schedules:
                    keep.add(s_, f"schedule {s_.schedule_id} of the first listing")
                acc.count("records_parsed_via_api", len(recs))
                if i % 3 == 0:
                    # two devices listed at the same time by two API objects of one application (asyncio.gather); the second device
                    # answers a few loop cycles later (or first): each listing holds its own device's records
                    recs_a, recs_b = record_set(r.randrange(1, 9)), record_set(r.randrange(1, 9))
                    served["reply"] = replies.schedules([replies.schedule_record(*x) for x in recs_a], header=r.randbytes(45))
                    reply_b = replies.schedules([replies.schedule_record(*x) for x in recs_b])
                    healthy_b = td.auto_responder(rnd=r)
                    self.dev2.responder = lambda conn, idx, frame: reply_b if frames.classify(frame) == "get_schedules" else healthy_b(conn, idx, frame)
                    lag = {self.dev: r.randrange(0, 6), self.dev2: r.randrange(0, 6)}

                    def make_gate(dev):
                        async def gate(conn, idx, frame):
                            for _ in range(lag[dev] if frames.classify(frame) == "get_schedules" else lag[dev] // 2):
                                await asyncio.sleep(0)
                        return gate

                    self.dev.gate, self.dev2.gate = make_gate(self.dev), make_gate(self.dev2)
                    cl2 = await self.rig.connect(self.dev2, 1, gen.device_id(r), gen.device_key(r))
                    try:
                        acc.ev(2)
                        ra, rb_ = await asyncio.gather(cl.api.get_schedules(), cl2.api.get_schedules(), return_exceptions=True)
                        for which, res, want in (("first", ra, recs_a), ("second", rb_, recs_b)):
                            if isinstance(res, BaseException):
                                acc.violation(f"parse-raised:{type(res).__name__}:concurrent-listing", f"{which} of two concurrent listings ({len(recs_a)} and "
                                              f"{len(recs_b)} records, reply lags {sorted(lag.values())} cycles) raised {type(res).__name__}: {res}", {"zone": zone})
                            else:
                                self._judge_set(acc, res.schedules, want, zone, f"{which} of two concurrent api.get_schedules")
                        acc.count("concurrent_listings", 2)
                    finally:
                        self.dev.gate = self.dev2.gate = None
                        await cl2.close()
                # round trips
                today = clock.local(zone, now).date()
                created = []
                for k in range(4):
                    sm, em = r.randrange(1440), r.randrange(1440)
                    if k == 0:
                        sm, em = i % 1440, (i * 7 + 5) % 1440
                    one_time = False
                    if k == 3:
                        # tomorrow's clock skips an hour: a one-time schedule for a time of day that exists today and not tomorrow
                        tomorrow = today + timedelta(days=1)
                        skipped = [m_ for m_ in range(0, 1440, 15) if not clock.epochs_of(zone, tomorrow, m_ // 60, m_ % 60)]
                        if skipped:
                            sm = skipped[i % len(skipped)]
                            em = (sm + 60) % 1440
                            one_time = True
                            acc.count("one_time_schedules_for_a_time_tomorrow_skips")
                    start, end = f"{sm // 60:02d}:{sm % 60:02d}", f"{em // 60:02d}:{em % 60:02d}"
                    if not clock.epochs_of(zone, today, sm // 60, sm % 60) or not clock.epochs_of(zone, today, em // 60, em % 60):
                        acc.skip_unspecified()
                        continue
                    mask = 0 if one_time else EVEN_MASKS[(i * 4 + k) % 128]
                    days = sorted(days_of(mask))
                    rec = await cl.run("create_schedule", {"start": start, "end": end, "days": days})
                    acc.ev()
                    if rec.outcome != "return" or len(rec.writes) != 2 or len(rec.writes[1]) != 99:
                        acc.violation("create-schedule-failed", f"create_schedule({start},{end},{days}) in {zone}: outcome {rec.outcome} {rec.exc!r}", {})
                        continue
                    record12 = rec.writes[1][83:95]
                    slot = (k + i) % 8 if k < 3 else 200 + k
                    created.append((slot, start, end, set(days), bytes([slot]) + record12[1:] + b"\xce\x0e\x00\x00"))
                if created:
                    served["reply"] = replies.schedules([c[4] for c in created])
                    resp = await cl.api.get_schedules()
                    got = {s.schedule_id: s for s in resp.schedules}
                    for slot, start, end, days, _ in created:
                        acc.count("round_trips")
                        acc.sig(env.sig(zone, str(today), start, end, sorted(days)))
                        s = got.get(str(slot))
                        if s is None:
                            if sum(1 for c in created if c[0] == slot) == 1:
                                acc.violation("round-trip-lost", f"created schedule in slot {slot} not listed back", {})
                            continue
                        if sum(1 for c in created if c[0] == slot) > 1:
                            continue
                        have = (s.start_time, s.end_time, {d.name for d in s.days})
                        if have != (start, end, days):
                            which = "start" if have[0] != start else ("end" if have[1] != end else "days")
                            acc.violation(f"round-trip-changed:{which}", f"{zone} on {today}: created ({start},{end},{sorted(days)}) read back as "
                                          f"({have[0]},{have[1]},{sorted(have[2])})", {"zone": zone, "today": str(today)})
                keep.verify(acc, "listed-schedule-changed-later", "the time later listings and created schedules had gone over the same connection")
            finally:
                await cl.close()
        acc.count("cases")
        acc.count("cases_non_whole_hour_offset", int(off % 3600 != 0))
        if i % 140 < 2:
            acc.sample({"zone": zone, "virtual_now": now, "utc_offset_s": off, "records_served": [list(x) for x in recs][:3],
                        "round_trips": [(c[0], c[1], c[2], sorted(c[3])) for c in created]})


    def thread_pairs(self, ctx):
        clock.set_zone("Asia/Jerusalem")
        recs_a = [(k, EVEN_MASKS[(k * 17 + 3) % 128], 1_800_000_000 + k * 3660, 1_800_003_600 + k * 3660) for k in range(8)]
        recs_b = [(k, EVEN_MASKS[(k * 29 + 40) % 128], 1_790_000_000 + k * 7260, 1_790_001_800 + k * 7260) for k in range(8)]
        ra = replies.schedules([replies.schedule_record(*x) for x in recs_a])
        rb = replies.schedules([replies.schedule_record(*x) for x in recs_b])

        def judge(recs):
            def j(res):
                if not hasattr(res, "schedules"):
                    return f"{res!r}"
                got = {s.schedule_id: s for s in res.schedules}
                if len(got) != len(recs):
                    return f"parsed {len(got)} schedules out of a reply with {len(recs)} whole records and distinct slots"
                for slot, mask, se, ee in recs:
                    s = got.get(str(slot))
                    if s is None:
                        return f"slot {slot} missing"
                    have = (s.start_time, s.end_time, {d.name for d in s.days})
                    want = (clock.hhmm_of("Asia/Jerusalem", se), clock.hhmm_of("Asia/Jerusalem", ee), days_of(mask))
                    if have != want:
                        return f"slot {slot} parsed as {have}, the record says {want}"
                return None
            return j

        cls = self.messages.SwitcherGetSchedulesResponse
        return [("parse listing A || parse listing B", lambda: cls(ra), lambda: cls(rb), judge(recs_a), judge(recs_b)),
                ("parse listing A || parse listing A", lambda: cls(ra), lambda: cls(ra), judge(recs_a), judge(recs_a))]


PROP = C10()
