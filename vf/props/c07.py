"""C07 - the bridge delivers each valid broadcast once, in order, whatever else arrives.

Offline checker over the ordered callback log: every datagram carries a unique
tag in its device-id field (an exact repeat re-uses it on purpose), the harness
knows which port each tag went to, and a sentinel broadcast per port is the
delivery barrier.
"""

import asyncio

from .. import env, gen
from ..fakes import udp
from ..prop import Prop
from ..ref import broadcast as rb
from ..selftest import broadcast_captures

CLASSES = ["valid", "valid", "valid", "valid", "repeat", "foreign", "truncated", "extended", "flip_magic", "flip_model",
           "flip_field", "unknown_model", "undecodable", "empty"]


class C07(Prop):
    id = "C07"
    tour_noisy = False
    level = "exploration"
    technique = "offline exactly-once / per-port-order checker over the callback log of a running multi-port bridge (unique tags, sentinel barriers, raising callbacks, seeded cross-port send order)"
    rule = ("history = 20..200 datagrams over {valid broadcast of each family, exact repeat of the previous valid one, foreign bytes, truncated, "
            "bit flipped in magic / model / a field, unknown model, undecodable field, empty} x 1..4 ports (every 5th history on the library's default ports 20002/10002/20003/10003) x device ids from a 3-id pool per port "
            "(bad and valid datagrams share ids) x callback-raise schedule (never, every "
            "k-th, first n, on chosen tags) x seeded cross-port send order with yield points; distinct = (class sequence per port, raise "
            "schedule); non-trivial = histories with at least one bad datagram or raising callback followed by a valid broadcast on the same port")
    level_text = ("Held-on-observed: per port the delivered tag sequence (undecided tags removed) must equal the sent sequence of valid tags, "
                  "repeats included; nothing is delivered that was not sent or not valid; every delivered device also passes C05's field oracle; "
                  "all of it while the user callback raises on scheduled invocations.")
    level_note = "asyncio's isolation of protocol-callback exceptions is observed, not verified; delivery of gate-passing frames with undecodable fields is unspecified (only their effect on later datagrams is judged)"
    assumptions = ["loopback UDP between one socket pair is ordered", "kernel datagram loss makes a history inconclusive"]
    warnings_as_errors = False   # unknown models are *reported by a warning*: under an error filter that is an exception by design
    anchors = ["aioswitcher.bridge:SwitcherBridge.start", "aioswitcher.bridge:UdpClientProtocol.datagram_received",
               "aioswitcher.bridge:_parse_device_from_datagram"]
    min_evaluations = {"quick": 80_000, "thorough": 800_000}
    budget_s = {"quick": 300, "thorough": 900}

    def selftest(self):
        broadcast_captures()

    async def setup(self, ctx):
        from aioswitcher.bridge import SwitcherBridge

        self.Bridge = SwitcherBridge
        self.rig = udp.UdpRig(ctx["shard"])
        self.rig.install(asyncio.get_running_loop())
        self.tp = await udp.probe_bridges(self.rig)
        self.tag = 0

    async def teardown(self, ctx):
        for b, _, _ in self.tp:
            await b.stop()
        self.rig.uninstall(asyncio.get_running_loop())

    def cases(self, tier, seed, shard, nshards):
        n = {"quick": 2_400, "thorough": 160_000}[tier]
        for i in range(shard, n, nshards):
            yield {"i": i, "seed": seed}

    def _next_tag(self):
        self.tag = (self.tag + 1) % udp.SENTINEL_BASE
        return f"{self.tag:06x}"

    def _make(self, r, cls, j, prev_valid, pool, unspec_pool):
        """-> (bytes, verdict, tag, desc)  verdict in VALID / INVALID / UNSPEC.

        Device ids come from a small per-port pool, as real devices keep broadcasting under one id: a bad datagram
        and a later valid broadcast may carry the same id.  Datagrams whose delivery is unspecified use ids of
        their own so that they can be taken out of the delivered sequence."""
        if cls == "repeat":
            if prev_valid is None:
                cls = "valid"
            else:
                data, tag, d = prev_valid
                return data, "VALID", tag, d
        if cls == "foreign":
            n = r.choice([1, 2, 7, 60, 159, 165, 168, 300, r.randrange(1, 500)])
            b = bytearray(r.randbytes(n))
            if n >= 2 and b[0:2] == b"\xfe\xf0":
                b[0] = 0
            return bytes(b), "INVALID", None, None
        if cls == "empty":
            return b"", "INVALID", None, None
        model = gen.MODELS[j % 9] if r.random() < 0.7 else r.choice(gen.MODELS)
        # decide first whether delivery of this datagram is decided by the statement: only undecided ones get ids of their own
        n_cut = r.randrange(1, 40)
        flip_pos, flip_bit = 74 + r.randrange(2), 1 << r.randrange(8)
        code = bytearray(bytes.fromhex(rb.MODELS[model][0]))
        code[flip_pos - 74] ^= flip_bit
        n_ext = r.choice([1, 2, 3, 4, 5, 9, 12, 40, 165])
        undecided = (cls in ("flip_field", "undecodable")
                     or (cls == "extended" and (rb.LENGTHS[rb.MODELS[model][2]] + n_ext) in (165, 168, 159))
                     or (cls == "truncated" and (rb.LENGTHS[rb.MODELS[model][2]] - n_cut) in (165, 168, 159))
                     or (cls == "flip_model" and bytes(code) in rb.CODE_TO_MODEL))
        tag = r.choice(unspec_pool) if undecided else r.choice(pool)
        d = gen.broadcast_desc(r, model, r.randrange(10 ** 6), tag)
        if cls == "valid" and d["state"] == "OFF" and rb.MODELS[model][2] == "WATER_HEATER" and r.random() < 0.15:
            # a heater that is off says nothing with its countdown bytes (reported as zero whatever they hold): stale or filler values
            d["remaining"] = r.choice([86400, 0xFFFFFFFF, 0x80000000, r.randrange(86400, 2 ** 32)])
            self.stale_countdowns = getattr(self, "stale_countdowns", 0) + 1
        data = rb.encode(d, filler=r.randbytes(168) if r.random() < 0.5 else None)
        if cls == "valid":
            return data, "VALID", tag, d
        if cls == "truncated":
            cut = data[:-n_cut]
            # cut down to another family's length the gate still passes: delivery is then unspecified
            return cut, ("UNSPEC" if rb.gate(cut) else "INVALID"), tag, d
        if cls == "extended":
            # a valid broadcast with trailing bytes (or two glued together) is not a broadcast
            longer = data + (data[:n_ext] if n_ext == 165 else r.randbytes(n_ext))
            return longer, ("UNSPEC" if rb.gate(longer) else "INVALID"), tag, d
        b = bytearray(data)
        if cls == "flip_magic":
            b[r.randrange(2)] ^= 1 << r.randrange(8)
            return bytes(b), "INVALID", tag, d
        if cls in ("flip_model", "unknown_model"):
            if cls == "unknown_model":
                unk = r.choice([b"\xff\xff", b"\x00\x00", b"\x03\x18", b"\x0c\x03", r.randbytes(2)])
                while unk in rb.CODE_TO_MODEL:     # two random bytes can spell a known model: then it would not be this class
                    unk = r.randbytes(2)
                b[74:76] = unk
            else:
                b[flip_pos] ^= flip_bit
            return bytes(b), ("UNSPEC" if bytes(b[74:76]) in rb.CODE_TO_MODEL else "INVALID"), tag, d
        if cls == "flip_field":
            fb = sorted(rb.field_bytes(model) - set(range(0, 4)) - set(range(18, 21)) - {38, 39, 74, 75})
            b[r.choice(fb)] ^= 1 << r.randrange(8)
            return bytes(b), "UNSPEC", tag, d
        if cls == "undecodable":
            cat = rb.MODELS[model][2]
            if cat == "SHUTTER":
                if r.random() < 0.5:
                    b[137:139] = r.choice([b"\x01\x01", b"\x02\x00", b"\xff\xff"])
                else:
                    b[136] = 0x0A
            elif cat == "THERMOSTAT" and r.random() < 0.5:
                b[140] = r.choice([0x40, 0x90, 0xF1])
            else:
                b[42 + r.randrange(4)] = r.choice([0xFF, 0xC0, 0x80])
            return bytes(b), "UNSPEC", tag, d
        raise KeyError(cls)

    async def run_case(self, case, acc, ctx):
        from ..ref import clock

        i = case["i"]
        r = env.rng("C07", case["seed"], i)
        self.vnow = getattr(self, "vnow", 1_795_000_000.0) + r.choice([0.3, 9, 61, 3700, 90000, -45, -7200])
        with clock.virtual_time(self.vnow):      # the wall clock moves between histories (a minute, hours, a day, backwards)
            await self._history(case, acc, ctx, i, r)

    async def _history(self, case, acc, ctx, i, r):
        nports = 1 + env.sig("nports", i) % 4
        use_defaults = i % 5 == 0 and ctx["shard"] == 0 and all(udp.can_bind(p) for p in (20002, 10002, 20003, 10003))
        if use_defaults:
            nports, ports = 4, [20002, 10002, 20003, 10003]   # the library's own defaults (free inside the private namespace)
        else:
            ports = self.rig.free_ports(nports)
        log = self.rig.log
        log.consumer_edits = (i % 2 == 1)     # in every other history the consumer renames what it was given (every third delivery)
        log.clear()
        if not hasattr(self, "keep"):
            from ..monitors.keepsake import Keep

            self.keep = Keep(limit=200)
        self.keep.verify(acc, "delivered-device-changed-later", "the time a later bridge had handled a later history")
        # callback raise schedule
        sched = ("never", "every", "first", "tags")[(i // 4) % 4]
        k = r.randrange(1, 6)
        raising_tags = set()
        if sched == "every":
            log.raise_on = lambda dev, n: n % k == 0
        elif sched == "first":
            log.raise_on = lambda dev, n: n <= 3 * k
        elif sched == "tags":
            log.raise_on = lambda dev, n: dev.device_id in raising_tags
        else:
            log.raise_on = None
        # the callback: the harness's own bound method, or a bound method of a consumer object that nobody else references
        unheld = i % 7 == 3
        cb = udp.Relay(log).on_device if unheld else log.callback
        bridge = self.Bridge(cb) if use_defaults else self.Bridge(cb, ports)
        del cb
        await bridge.start()
        if unheld:
            import gc

            gc.collect()
            acc.count("histories_with_a_consumer_object_nobody_else_holds")
        # somebody else in the process tries to listen on the same ports with a callback of their own: either that fails
        # (address in use) or, if it is allowed, the first bridge must still get every broadcast sent to its ports
        stolen = []
        twin = None
        if i % 3 == 0:
            twin = self.Bridge(stolen.append, list(ports))
            try:
                await twin.start()
                acc.count("second_bridge_on_the_same_ports_started")
            except OSError:
                acc.count("second_bridge_on_the_same_ports_refused")
                twin = None
        pools = {p: [self._next_tag() for _ in range(3)] for p in ports}
        unspec_pools = {p: [self._next_tag() for _ in range(2)] for p in ports}
        try:
            total = r.randrange(20, 201)
            per_port = {p: [] for p in ports}      # (verdict, tag, desc, cls)
            prev_valid = {p: None for p in ports}
            since_barrier = {p: 0 for p in ports}
            tag_port = {}
            lost = None
            for j in range(total):
                p = r.choice(ports)
                cls = r.choice(CLASSES)
                data, verdict, tag, d = self._make(r, cls, j, prev_valid[p], pools[p], unspec_pools[p])
                if verdict == "VALID":
                    prev_valid[p] = (data, tag, d)
                    if sched == "tags" and r.random() < 0.3:
                        raising_tags.add(tag)
                if tag is not None:
                    tag_port.setdefault(tag, p)
                per_port[p].append((verdict, tag, d, cls))
                self.rig.send(p, data)
                since_barrier[p] += 1
                if r.random() < 0.15:
                    await asyncio.sleep(0)   # yield point: the loop may deliver what is queued so far
                if since_barrier[p] >= 44:
                    res = await self.rig.barrier(p)
                    since_barrier[p] = 0
                    if res != "ok":
                        lost = (p, res)
                        break
            if lost is None:
                for p in ports:
                    res = await self.rig.barrier(p)
                    if res != "ok":
                        lost = (p, res)
                        break
        finally:
            log.raise_on = None
            if twin is not None:
                try:
                    await twin.stop()
                except Exception:
                    pass
            await bridge.stop()
            await asyncio.sleep(0)
            await asyncio.sleep(0)
        if lost and lost[1] == "dropped":
            acc.count("histories_with_kernel_drops")
            acc.inconclusive_because("kernel dropped datagrams (drops>0 in /proc/net/udp)")
            return
        history_desc = {str(p): [c for _, _, _, c in seq] for p, seq in per_port.items()}
        if lost:
            acc.violation("deliveries-stopped", f"port {lost[0]}: a sentinel broadcast sent after the history was never delivered (callback schedule {sched})",
                          {"ports": ports, "history": history_desc, "events": [str(e)[:160] for e in log.events if e[0] != 'device'][-5:]})
            return
        # ---- offline check of the ordered callback log
        delivered = {p: [] for p in ports}
        devices = {}
        for kind, payload in log.events:
            if kind != "device" or udp.is_sentinel(payload):
                continue
            tag = payload.device_id
            if tag not in tag_port:
                acc.violation("delivery-without-send", f"callback got device id {tag} that no datagram of this history carried", {"history": history_desc})
                continue
            delivered[tag_port[tag]].append(tag)
            devices.setdefault(tag, []).append(payload)
        n_dg = 0
        for p in ports:
            seq = per_port[p]
            n_dg += len(seq)
            unspec = set(unspec_pools[p])
            invalid = set()
            want = [t for v, t, _, _ in seq if v == "VALID"]
            got = [t for t in delivered[p] if t not in unspec]
            if got != want:
                extra = [t for t in set(got) if got.count(t) > want.count(t)]
                bad_same_id = [c for v, t, _, c in seq if v == "INVALID" and t in extra]
                if extra and bad_same_id:
                    mech = f"delivered-invalid:{bad_same_id[0]}"
                elif sorted(got) == sorted(want):
                    mech = "reordered"
                elif any(got.count(t) > want.count(t) for t in set(got)):
                    mech = "delivered-more-than-valid-sent"   # a duplicate, or a bad datagram was delivered
                else:
                    mech = "lost"
                    # which class of datagram preceded the first loss?
                    pos = next((n for n, (a, b) in enumerate(zip(want, got)) if a != b), min(len(want), len(got)))
                    valid_idx = [n for n, (v, t, _, _) in enumerate(seq) if v == "VALID"]
                    idx = valid_idx[min(pos, len(valid_idx) - 1)]
                    before = seq[idx - 1][3] if idx else "start"
                    same_id_bad_before = any(v == "INVALID" and t == seq[idx][1] for v, t, _, _ in seq[:idx])
                    mech = "repeat-lost" if seq[idx][3] == "repeat" else (f"lost-after-bad-datagram-with-same-id:{before}" if same_id_bad_before and before != "valid" else f"lost-after:{before}")
                acc.violation(mech, f"port {p} ({nports} ports, callback schedule {sched}): delivered {len(got)} valid-tag deliveries, sent {len(want)} valid broadcasts",
                              {"port": p, "history": history_desc[str(p)], "want": want, "got": got,
                               "events": [str(e)[:160] for e in log.events if e[0] != 'device'][:6]})
            # decoded device matches its datagram: the k-th delivery under an id is the k-th valid broadcast sent under it
            if got == want:
                nth = {}
                for v, t, d, _ in seq:
                    if v != "VALID":
                        continue
                    k2 = nth.get(t, 0)
                    nth[t] = k2 + 1
                    devs = [x for x in devices.get(t, [])]
                    if k2 < len(devs):
                        for field, g, w in rb.compare_device(devs[k2], d):
                            acc.violation(f"decoded-device-wrong:{field}", f"{d['model']}: {field} = {g!r}, want {w!r}", {"desc": d})
        if i % 9 == 4 and not use_defaults:
            # the application restarts its event loop (asyncio.run a second time) and starts the same bridge object again
            log.raise_on = None
            probe = []
            for n in range(5):
                t = self._next_tag()
                probe.append(rb.encode(gen.broadcast_desc(r, gen.MODELS[(i + n) % 9], n, t)))
            loop = asyncio.get_running_loop()
            verdict = "ok"
            try:
                seen, verdict = await loop.run_in_executor(None, udp.second_loop_probe, lambda: bridge, ports[0], probe, log, self.rig.sender)
            except Exception as exc:
                seen = f"{type(exc).__name__}: {exc}"
            acc.ev(len(probe))
            acc.count("broadcasts_to_the_same_bridge_in_a_second_event_loop", len(probe))
            if seen != len(probe) and verdict == "unknown":
                acc.inconclusive_because("second-event-loop probe: datagrams dropped or still queued by the kernel")
            elif seen != len(probe):
                acc.violation("deliveries-stopped:second-event-loop", f"the bridge object of this history, started again in a new event loop of the same process, "
                              f"delivered {seen} of {len(probe)} valid broadcasts", {"ports": ports, "delivered": str(seen)})
        for t_, devs_ in list(devices.items())[:6]:
            self.keep.add(devs_[0], f"device object delivered under id {t_} in history {i}")
        acc.ev(n_dg)
        acc.count("histories")
        acc.count(f"ports_{nports}")
        acc.count("histories_on_default_ports", int(use_defaults))
        acc.count(f"callback_schedule_{sched}")
        acc.count("callback_raised", sum(1 for k2, p2 in log.events if k2 == "loop_exc" and "CallbackBoom" in p2))
        acc.count("valid_sent", sum(1 for p in ports for v, *_ in per_port[p] if v == "VALID"))
        acc.count("valid_delivered", sum(len(delivered[p]) for p in ports))
        acc.count("off_heaters_with_stale_countdown_bytes", getattr(self, "stale_countdowns", 0))
        self.stale_countdowns = 0
        nontrivial = False
        for p in ports:
            seen_bad = sched != "never"
            for v, t, _, c in per_port[p]:
                if v != "VALID":
                    seen_bad = True
                elif seen_bad:
                    nontrivial = True
        if nontrivial:
            acc.sig(env.sig(history_desc, sched, k))
        if i % 80 == 2:
            acc.sample({"ports": nports, "callback_schedule": sched, "datagrams": n_dg,
                        "first_port_classes": history_desc[str(ports[0])][:25],
                        "first_port_delivered_tags": delivered[ports[0]][:10]})


    def thread_pairs(self, ctx):
        r = env.rng("C07", "threads")
        (b1, p1, g1), (b2, p2, g2) = self.tp
        if p1 is None or p2 is None:
            return []
        d = {m: gen.broadcast_desc(r, m, 7, f"{0xD00000 + n:06x}") for n, m in enumerate(("BREEZE", "V4", "RUNNER", "POWER_PLUG", "BREEZE"))}
        d2 = gen.broadcast_desc(r, "BREEZE", 11, "d000aa")
        enc = {m: rb.encode(x) for m, x in d.items()}
        nomagic = bytearray(enc["V4"])
        nomagic[0:2] = b"\x00\x00"
        unknown = bytearray(enc["V4"])
        unknown[74:76] = b"\xee\x01"
        H, J = udp.handed_over, udp.judge_delivery
        return [("first broadcast ever: Breeze || Breeze", H(p1, g1, enc["BREEZE"]), H(p2, g2, rb.encode(d2)), J(d["BREEZE"]), J(d2)),
                ("frame without the magic || genuine broadcast", H(p1, g1, bytes(nomagic)), H(p2, g2, enc["RUNNER"]), J(None), J(d["RUNNER"])),
                ("genuine broadcast || frame without the magic", H(p1, g1, enc["POWER_PLUG"]), H(p2, g2, bytes(nomagic)), J(d["POWER_PLUG"]), J(None)),
                ("unknown model || water heater", H(p1, g1, bytes(unknown)), H(p2, g2, enc["V4"]), J("unknown"), J(d["V4"])),
                ("runner || plug", H(p1, g1, enc["RUNNER"]), H(p2, g2, enc["POWER_PLUG"]), J(d["RUNNER"]), J(d["POWER_PLUG"]))]


PROP = C07()
