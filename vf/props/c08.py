"""C08 - state replies are decoded into exactly what the device reported.

The fake device serves replies built by the reference encoder (lengths of real
devices); the objects returned by the real get_state / get_shutter_state /
get_breeze_state are compared field by field with the encoder's input.
"""

from .. import env, gen, tcpwork
from ..fakes import tcp_device as td
from ..prop import Prop
from ..ref import broadcast as rb
from ..ref import frames, replies
from ..selftest import reply_captures

DIRS = ["STOP", "UP", "DOWN"]
MODES = list(rb.MODES)
FANS = list(rb.FANS)
RID_CHARS = "ABCDEFGHIJKLMNOPQRSTUVWXYZ0123456789"


# 16/32-bit values that read, in little- or big-endian, as the protocol's own markers
COINCIDENCES_16 = [0xF0FE, 0xFEF0, 0x0A0A, 0x3030, 0x7C7C, 0x000A, 0x0A00, 0xFE00, 0x00F0, 0xF000, 0x00FE, 0xFFFF, 0xFEFE, 0xF0F0]
COINCIDENCES_32 = [0xF0FE, 0xFEF0, 0x0000F0FE & 0xFFFF, 0x00010A00 % 86400, 0x0A0A, 0x3030, 0x00007C7C % 86400, 61694, 65264, 2570, 12336]


def gen_state1(r, i):
    d = {"state": r.choice(["ON", "OFF"]), "power": r.randrange(65536), "time_left": r.randrange(86400),
         "time_on": r.randrange(86400), "auto_shutdown": r.randrange(86400)}
    sweep = i % 5
    if sweep == 0:
        d["power"] = (i // 5 * 257) % 65536
    elif sweep == 1:
        d["time_left"] = (i // 5 * 337) % 86400
    elif sweep == 2:
        d["time_on"] = (i // 5 * 331) % 86400
    elif sweep == 3:
        d["auto_shutdown"] = (i // 5 * 347) % 86400
    else:
        e = r.choice([0, 1, 255, 256, 65535, 86399, 3599, 3600, 59, 60])
        k = r.choice(["power", "time_left", "time_on", "auto_shutdown"])
        d[k] = min(e, 65535 if k == "power" else 86399)
    x = r.random()
    if x < 0.06:
        # values whose bytes on the wire spell one of the protocol's own markers (fe f0, f0 fe, 0a, 30 30, 7c)
        k = r.choice(["power", "time_left", "time_on", "auto_shutdown"])
        d[k] = r.choice(COINCIDENCES_16 if k == "power" else [v for v in COINCIDENCES_16 + COINCIDENCES_32 if v < 86400])
    elif x < 0.26:
        # what a real boiler reports: the three counters hang together (left = auto-shutdown - on), give or take the second
        # the device needs to sample them
        d["state"] = "ON" if r.random() < 0.8 else "OFF"
        d["auto_shutdown"] = r.choice([3600, 5400, 7200, 10800, 86340, r.randrange(3600, 86400)])
        d["time_on"] = r.randrange(0, d["auto_shutdown"] + 1)
        d["time_left"] = max(0, min(86399, d["auto_shutdown"] - d["time_on"] + r.choice([0, 0, 1, -1, 1, -1, 2, -2, 60, -60])))
    return d


def gen_shutter(r, i):
    return {"position": i % 256, "direction": DIRS[(i // 256 + i) % 3]}


def gen_thermo(r, i):
    rid = "".join(r.choice(RID_CHARS) for _ in range(1 + i % 8))
    if r.random() < 0.06:
        # blanks are characters too (trailing ones included); so is whatever else a vendor puts between the letters
        rid = r.choice(["AUX1 ", "TADIRAN ", " LG", "A B", "AB C D ", "X ", "  ", "ZM 079 ", "AB\x00CD", "A\tB"])
    elif r.random() < 0.35:
        rid = r.choice(["ELEC7022", "ZM079055", "ZM079065", "ZM079049", "ELEC7001", "ELEC7020", "DLK65863", "AUX10", "TOP", "ZM0790"])
    d = {"state": ("ON", "OFF")[i % 2], "mode": MODES[(i // 2) % 5], "fan": FANS[(i // 10) % 4], "swing": ("ON", "OFF")[(i // 40) % 2],
         "temp_tenths": r.randrange(65536), "target": r.randrange(256), "remote_id": rid}
    if i % 3 == 0:
        d["temp_tenths"] = (i // 3 * 211) % 65536
    if i % 3 == 1:
        d["target"] = (i // 3) % 256
    if r.random() < 0.05:
        d["temp_tenths"] = r.choice(COINCIDENCES_16)
    elif r.random() < 0.03:
        d["target"] = r.choice([0x0A, 0x30, 0x7C, 0xFE, 0xF0, 0x00, 0xFF])
    return d


def mismatches(kind, resp, d):
    bad = []

    def chk(name, got, want):
        if got != want or type(got) is not type(want):
            bad.append((name, repr(got), repr(want)))

    if kind == "state1":
        chk("state", resp.state.name, d["state"])
        chk("time_left", resp.time_left, rb.hms(d["time_left"]))
        chk("time_on", resp.time_on, rb.hms(d["time_on"]))
        chk("auto_shutdown", resp.auto_shutdown, rb.hms(d["auto_shutdown"]))
        chk("power_consumption", resp.power_consumption, d["power"])
        if not (isinstance(resp.electric_current, float) and rb.amps_ok(d["power"], resp.electric_current)):
            bad.append(("electric_current", repr(resp.electric_current), f"{d['power']}W/220 to one decimal"))
    elif kind == "shutter":
        chk("position", resp.position, d["position"])
        chk("direction", resp.direction.name, "SHUTTER_" + d["direction"])
    else:
        chk("state", resp.state.name, d["state"])
        chk("mode", resp.mode.name, d["mode"])
        chk("fan_level", resp.fan_level.name, d["fan"])
        chk("swing", resp.swing.name, d["swing"])
        chk("temperature", resp.temperature, d["temp_tenths"] / 10)
        chk("target_temperature", resp.target_temperature, d["target"])
        chk("remote_id", resp.remote_id, d["remote_id"])
    return bad


class C08(Prop):
    id = "C08"
    level = "exploration"
    technique = "reference reply encoder served by a fake device over TCP; field-by-field comparison of the objects the real API returns"
    rule = ("case = one type-1 and one type-2 connection answering 24 state queries with the three reply families interleaved (rotating order); every field sweeps its domain across cases (power 0..65535, three time "
            "fields 0..86399, position 0..255, temperature 0..65535 tenths, target 0..255, all enumerants, remote ids of 1..8 chars) while "
            "the others are random, half of the type-1 replies with random filler in non-field bytes; distinct = (reply kind, all field "
            "values); non-trivial = all")
    level_text = ("Held-on-observed over tens of thousands of encoder-built replies of the three state families plus login replies; every "
                  "field of the returned object is compared with the encoder's input, with sweeps arranged so that neighbouring-offset and "
                  "byte-order errors cannot cancel.")
    level_note = "trusts vf/ref/replies.py (offsets checked against the real replies in tests/testresources by the self-test)"
    assumptions = ["amps: any one-decimal value within 0.05 of watts/220"]
    anchors = ["aioswitcher.api.messages:StateMessageParser.get_power_consumption", "aioswitcher.api.messages:StateMessageParser.get_time_left",
               "aioswitcher.api.messages:StateMessageParser.get_time_on", "aioswitcher.api.messages:StateMessageParser.get_auto_shutdown",
               "aioswitcher.api.messages:StateMessageParser.get_shutter_position", "aioswitcher.api.messages:StateMessageParser.get_shutter_direction",
               "aioswitcher.api.messages:StateMessageParser.get_thermostat_temp", "aioswitcher.api.messages:StateMessageParser.get_thermostat_remote_id",
               "aioswitcher.api.messages:SwitcherLoginResponse.__post_init__"]
    min_evaluations = {"quick": 40_000, "thorough": 400_000}
    budget_s = {"quick": 300, "thorough": 900}

    def selftest(self):
        reply_captures()

    async def setup(self, ctx):
        self.rig = tcpwork.Rig(ctx["shard"])
        self.dev = await self.rig.device()

    async def teardown(self, ctx):
        await self.rig.close()

    def cases(self, tier, seed, shard, nshards):
        n = {"quick": 4_800, "thorough": 240_000}[tier]
        for i in range(shard, n, nshards):
            yield {"i": i, "seed": seed}

    async def run_case(self, case, acc, ctx):
        i = case["i"]
        r = env.rng("C08", case["seed"], i)
        queue = []
        issued = []

        def responder(conn, idx, frame):
            k = frames.classify(frame)
            if k in ("login", "login2"):
                s = gen.session(r)
                issued.append(s)
                return replies.login(s)
            return queue.pop(0)

        self.dev.responder = responder
        from ..monitors.keepsake import Keep

        keep = Keep(limit=60)
        from aioswitcher.device import DeviceType
        from ..ref import clock

        clock.set_zone(env.ZONES[i % len(env.ZONES)])   # durations are durations: the host zone must not matter

        c1 = await self.rig.connect(self.dev, 1, gen.device_id(r), gen.device_key(r))
        c2 = await self.rig.connect(self.dev, 2, gen.device_id(r), gen.device_key(r))
        try:
            # all three reply families are parsed in one process, interleaved in an order that rotates with the case:
            # anything remembered from one family's reply is wrong for the next
            order = [("state1", "shutter", "thermo"), ("thermo", "state1", "shutter"), ("shutter", "thermo", "state1")][i % 3]
            for q in range(24):
                kind = order[q % 3] if (i // 3) % 2 == 0 else order[(q // 8) % 3]
                j = i * 8 + q // 3
                dress = {}
                if r.random() < 0.5:
                    # header words a real reply carries besides its fields: the session id, the device's clock, its name
                    dress = {"hdr_session": gen.session(r), "hdr_clock": (gen.coincidence(r, 4) if r.random() < 0.3 else r.randbytes(4)),
                             "hdr_name": gen.name_fitting(r, 32, 1, pool=r.choice(["emoji", "ascii", "hebrew", "cjk"]))}
                if kind == "state1":
                    d = gen_state1(r, j)
                    reply = replies.state1(dict(d, **{k: v for k, v in dress.items() if k != "hdr_name"}), filler=r.randbytes(replies.STATE1_LEN) if q % 2 else None)
                    call = c1.api.get_state
                elif kind == "shutter":
                    d = gen_shutter(r, j)
                    reply = replies.shutter(dict(d, **dress))
                    call = c2.api.get_shutter_state
                else:
                    d = gen_thermo(r, j)
                    reply = replies.thermostat(dict(d, **dress))
                    call = c2.api.get_breeze_state
                queue.append(reply)
                acc.ev()
                try:
                    resp = await call()
                except Exception as exc:
                    acc.violation(f"well-formed-reply-raised:{kind}", f"{kind} reply {d} raised {type(exc).__name__}: {exc}", {"kind": kind, "desc": d, "reply": reply.hex()})
                    continue
                bad = mismatches(kind, resp, d)
                if resp.unparsed_response != reply or not resp.successful:
                    bad.append(("unparsed_response/successful", "", ""))
                for name, got, want in bad:
                    acc.violation(f"field-wrong:{kind}:{name}", f"{kind} reply {d}: {name} = {got}, want {want}", {"kind": kind, "desc": d, "reply": reply.hex()})
                acc.sig(env.sig(kind, sorted(d.items())))
                acc.count(f"replies_{kind}")
                if q % 5 != (i + 2) % 5:
                    keep.add(resp, f"{kind} response object returned for reply #{q}")
                if kind == "state1" and q % 4 == i % 4:
                    # the caller acts on what it read: a command that asks for the opposite state, acknowledged by the device
                    from aioswitcher.api import Command as _Command

                    queue.append(replies.ack())
                    try:
                        await c1.api.control_device(_Command.OFF if d["state"] == "ON" else _Command.ON)
                    except Exception as exc:
                        acc.count(f"control_after_query_raised_{type(exc).__name__}")
                    acc.count("commands_sent_between_state_queries")
                    keep.verify(acc, "returned-response-changed-later", "the time a later command on the same object had been acknowledged")
                if q % 5 == (i + 2) % 5:
                    # the caller writes into the object it got (an optimistic update of its own view); the device then sends the
                    # very same reply again: the new object says what the reply says
                    try:
                        for attr in ("state", "mode", "direction", "fan_level", "swing"):
                            if hasattr(resp, attr):
                                cur_ = getattr(resp, attr)
                                setattr(resp, attr, next(x for x in type(cur_) if x is not cur_))
                        for attr, val in (("time_left", "11:11:11"), ("time_on", "00:00:01"), ("auto_shutdown", "22:22:22"), ("power_consumption", 1), ("electric_current", 0.1),
                                          ("position", 99), ("temperature", -1.0), ("target_temperature", 99), ("remote_id", "EDITED")):
                            if hasattr(resp, attr):
                                setattr(resp, attr, val)
                    except Exception:
                        pass
                    queue.append(reply)
                    acc.ev()
                    acc.count("same_reply_again_after_the_caller_edited_the_response")
                    try:
                        resp2 = await call()
                        for name, got, want in mismatches(kind, resp2, d):
                            acc.violation(f"field-wrong:{kind}:{name}:after-caller-edit", f"{kind} reply {d} (the same bytes again, after the caller had edited the first response "
                                          f"object): {name} = {got}, want {want}", {"kind": kind, "desc": d})
                    except Exception as exc:
                        acc.violation(f"well-formed-reply-raised:{kind}", f"{kind} reply {d} (second time) raised {type(exc).__name__}: {exc}", {"kind": kind, "desc": d})
                if q % 6 == i % 6:
                    # an application that reads the socket itself hands the reply over in whatever buffer it has
                    from aioswitcher.api import messages as _m

                    rcls = {"state1": _m.SwitcherStateResponse, "shutter": _m.SwitcherShutterStateResponse, "thermo": _m.SwitcherThermostatStateResponse}[kind]
                    backing = bytearray(reply)
                    for form, buf in (("bytearray", bytearray(reply)), ("memoryview", memoryview(reply)), ("memoryview-of-bytearray", memoryview(backing)),
                                      ("keyword", None)):
                        acc.ev()
                        acc.count(f"direct_{form}")
                        try:
                            robj = rcls(unparsed_response=reply) if buf is None else rcls(buf)
                        except Exception as exc:
                            acc.violation(f"well-formed-reply-raised:{kind}:{form}", f"{kind} reply {d} held in a {form} raised {type(exc).__name__}: {exc}",
                                          {"kind": kind, "desc": d, "reply": reply.hex(), "form": form})
                            continue
                        for name, got, want in mismatches(kind, robj, d):
                            acc.violation(f"field-wrong:{kind}:{name}", f"{kind} reply {d} held in a {form}: {name} = {got}, want {want}",
                                          {"kind": kind, "desc": d, "reply": reply.hex(), "form": form})
            # login reply: the four session bytes at offset 8
            for cl, t in ((c1, 1), (c2, 2)):
                acc.ev()
                n0 = len(issued)
                ts, lr = await (cl.api._login() if t == 1 else cl.api._login(DeviceType.BREEZE))
                if lr.session_id != issued[n0].hex():
                    acc.violation("field-wrong:login:session_id", f"login reply with session {issued[n0].hex()} parsed as {lr.session_id!r}",
                                  {"session": issued[n0].hex(), "got": lr.session_id})
                acc.sig(env.sig("login", issued[n0]))
                acc.count("replies_login")
            # the responses returned earlier in this case were kept by the caller: later replies have not changed them
            keep.verify(acc, "returned-response-changed-later", "the end of the connection's 24 queries")
        finally:
            await c1.close()
            await c2.close()
        if i % 300 < 3:
            acc.sample({"kind": kind, "last_desc": d, "last_reply": reply.hex()[:100] + "..."})


    def thread_pairs(self, ctx):
        from aioswitcher.api import messages as m

        r = env.rng("C08", "threads")
        out = []
        descs = {"thermo": (gen_thermo(r, 3), gen_thermo(r, 8)), "state1": (gen_state1(r, 1), gen_state1(r, 7)), "shutter": (gen_shutter(r, 5), gen_shutter(r, 301))}
        build = {"thermo": replies.thermostat, "state1": replies.state1, "shutter": replies.shutter}
        cls = {"thermo": m.SwitcherThermostatStateResponse, "state1": m.SwitcherStateResponse, "shutter": m.SwitcherShutterStateResponse}

        def pair(ka, da, kb, db):
            ra, rb = build[ka](da), build[kb](db)

            def judge(kind, d):
                def j(res):
                    if not hasattr(res, "unparsed_response"):
                        return f"{res!r}"
                    bad = mismatches(kind, res, d)
                    return None if not bad else f"decoded {bad[0][0]} = {bad[0][1]}, the reply encodes {bad[0][2]}"
                return j
            return (f"decode {ka} reply || decode {kb} reply", lambda: cls[ka](ra), lambda: cls[kb](rb), judge(ka, da), judge(kb, db))

        out.append(pair("thermo", descs["thermo"][0], "thermo", descs["thermo"][1]))
        out.append(pair("state1", descs["state1"][0], "shutter", descs["shutter"][0]))
        out.append(pair("shutter", descs["shutter"][1], "state1", descs["state1"][1]))
        out.append(pair("state1", descs["state1"][0], "state1", descs["state1"][1]))
        return out


PROP = C08()
