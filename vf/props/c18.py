"""C18 - the TCP client is connected exactly between connect and disconnect.

Action histories (incl. failures) are run against a fake device; after every
action the `connected` flag is compared with a two-state model, and after every
disconnect / context exit the device must have seen end-of-stream on that
connection (waited for; the kernel's /proc/net/tcp row decides if it is absent).
"""

import asyncio
from itertools import product

from .. import env, tcpwork
from ..fakes import tcp_device as td
from ..prop import Prop
from ..ref import frames
from .. import ops

ALPHABET = ["connect", "op_ok", "op_raise", "drop", "disconnect", "refused", "ctx_ok", "ctx_exc", "op_big", "connect_cancelled", "disconnect_during_op", "disconnect_twice_at_once", "op_garbage"]


class Boom(Exception):
    pass


class Hung(Exception):
    """A lifecycle call neither returned nor raised within the real-time limit."""


async def bounded(coro, limit=15.0):
    """Await coro under a watchdog on the real clock (the wall clock seen by the library is virtual and may be stepped)."""
    import time as _t

    task = asyncio.ensure_future(coro)
    t0, spins = env.REAL_MONOTONIC(), 0
    while not task.done():
        spins += 1
        await asyncio.sleep(0 if spins < 300 else 0.002)
        if env.REAL_MONOTONIC() - t0 > limit:
            task.cancel()
            try:
                await task
            except BaseException:
                pass
            raise Hung(f"no result after {limit:.0f} s")
    return task.result()


class Halt(BaseException):
    """What an application raises to unwind everything: not an Exception."""


# the last two are not Exception subclasses: a task that is cancelled (asyncio.timeout, wait_for, TaskGroup, shutdown) leaves the block that way
BODY_EXCEPTIONS = (Boom, ConnectionResetError, TimeoutError, ValueError, ConnectionRefusedError, RuntimeError, BrokenPipeError, KeyError,
                   asyncio.CancelledError, Halt)


def legal(history):
    """Histories the statement quantifies over (no connect while connected, no operation while disconnected)."""
    connected = False
    for a in history:
        if a == "connect_cancelled":
            if connected:
                return False
        elif a in ("connect", "refused", "ctx_ok", "ctx_exc"):
            if connected and a == "refused":
                return False
            # connect or async-with on a client that is already connected is an input like any other: afterwards the
            # flag and the socket of the *current* session are judged as usual (what happens to the earlier socket is not)
            connected = a == "connect"
        elif a == "disconnect_during_op":
            if not connected:
                return False
            connected = False
        elif a in ("op_ok", "op_raise", "drop", "op_big", "op_garbage"):
            if not connected:
                return False
        elif a in ("disconnect", "disconnect_twice_at_once"):
            connected = False
    return True


def kernel_established(local_port: int, remote_ip: str, remote_port: int) -> bool:
    rip = "".join(f"{int(x):02X}" for x in reversed(remote_ip.split(".")))
    try:
        for line in open("/proc/net/tcp").read().splitlines()[1:]:
            f = line.split()
            lp = int(f[1].split(":")[1], 16)
            ra, rp = f[2].split(":")
            if lp == local_port and ra == rip and int(rp, 16) == remote_port and f[3] == "01":
                return True
    except OSError:
        pass
    return False


class C18(Prop):
    id = "C18"
    level = "fault_enumeration"
    technique = "action/fault histories against a fake device; flag-vs-model assertion after every action, device-side end-of-stream observation after every disconnect"
    rule = ("history = sequence over {connect, successful operation, operation that raises (empty login reply), device drops the connection "
            "and the client keeps using it, disconnect, refused connect (the device gone, or only this protocol's port closed), async-with with normal body, async-with whose body raises, operation answered with 6 KB, connect cancelled after 0..4 loop cycles followed by a reconnect, disconnect from another task while an operation waits for its reply}; all legal "
            "histories of length <= 4 for both API classes (exhaustive, both tiers) plus random legal histories of length 5..10; distinct = "
            "(api type, history); a second, independent instance stays connected to another device throughout and must be unaffected; non-trivial = histories containing a failure action (op_raise, drop, refused, ctx_exc) or a reconnect")
    level_text = ("All legal action histories up to length 4 over a 13-letter alphabet are enumerated for both API classes on every run, longer "
                  "ones sampled; after each action the flag is compared with the model and after each disconnect the device must observe end-of-stream.")
    level_note = "connect while connected and operations while disconnected are outside the statement; whether disconnect() raises after a device-side drop is not judged, only the flag and the socket"
    assumptions = ["an operation 'raises' by receiving an empty login reply", "refused connect = the device's listener is closed"]
    anchors = ["aioswitcher.api:SwitcherApi.connect", "aioswitcher.api:SwitcherApi.disconnect", "aioswitcher.api:SwitcherApi.__aenter__",
               "aioswitcher.api:SwitcherApi.__aexit__"]
    min_evaluations = {"quick": 10_000, "thorough": 150_000}
    budget_s = {"quick": 300, "thorough": 900}

    async def setup(self, ctx):
        self.rig = tcpwork.Rig(ctx["shard"])
        self.dev = await self.rig.device()
        self.dev2 = await self.rig.device()   # serves the bystander instance; never stopped or scripted to fail
        self.dev2.responder = td.auto_responder(family="shutter")
        import aioswitcher.api as api_mod

        self.api_mod = api_mod

    async def teardown(self, ctx):
        await self.rig.close()

    def cases(self, tier, seed, shard, nshards):
        i = 0
        for t in (1, 2):
            for n in (1, 2, 3, 4):
                for h in product(ALPHABET, repeat=n):
                    if not legal(h):
                        continue
                    if i % nshards == shard:
                        yield {"type": t, "history": list(h), "exhaustive": True}
                    i += 1
        n_rand = {"quick": 4_000, "thorough": 400_000}[tier]
        for j in range(n_rand):
            if i % nshards == shard:
                r = env.rng("C18", seed, j)
                h = []
                target_len = r.randrange(5, 11) if r.random() > 0.02 else 120
                while len(h) < target_len:
                    a = r.choice(ALPHABET)
                    if legal(h + [a]):
                        h.append(a)
                yield {"type": r.choice([1, 2]), "history": h}
            i += 1

    async def run_case(self, case, acc, ctx):
        t, history = case["type"], case["history"]
        dev = self.dev
        mode = {"login": "ok"}

        healthy = td.auto_responder(family="shutter")

        def responder(conn, idx, frame):
            if mode["login"] == "eof" and frames.classify(frame) in ("login", "login2"):
                return td.EOF
            if mode["login"] == "drop":
                return td.DROP
            if mode["login"] == "big" and frames.classify(frame) not in ("login", "login2"):
                return healthy(conn, idx, frame) + bytes(6000)     # a chatty device: far more than the client asks for
            if mode["login"] == "garbage" and frames.classify(frame) not in ("login", "login2"):
                return bytes(40)     # the login is answered properly, the state request with 40 zero bytes
            if mode["login"] == "biglogin" and frames.classify(frame) in ("login", "login2"):
                return healthy(conn, idx, frame) + bytes(1500)     # ... already at the login: the first read comes back full
            return healthy(conn, idx, frame)

        dev.responder = responder
        cls = self.api_mod.SwitcherType1Api if t == 1 else self.api_mod.SwitcherType2Api
        api = cls(dev.ip, "a1b2c3", "18")
        # a second, independent instance that stays connected to another device for the whole history
        bystander = cls(self.dev2.ip, "d4e5f6", "27")
        if env.sig("copies", t, history) % 3 == 0:
            # an application that keeps one unconnected template per device family and copies it for every use
            import copy

            template = cls("192.0.2.1", "000000", "00")
            api, bystander = copy.copy(template), copy.copy(template)
            api._ip_address, api._device_id, api._device_key = dev.ip, "a1b2c3", "18"
            bystander._ip_address, bystander._device_id, bystander._device_key = self.dev2.ip, "d4e5f6", "27"
            acc.count("histories_on_copies_of_one_template")
        n2 = len(self.dev2.conns)
        try:
            await bystander.connect()
        except Exception as exc:
            acc.violation("connect-failed", f"type {t}: connect to a listening device raised {type(exc).__name__}: {exc}", {"history": history})
            try:
                await bystander.disconnect()
            except Exception:
                pass
            return
        for _ in range(300):
            if len(self.dev2.conns) > n2:
                break
            await asyncio.sleep(0)
        bconn = self.dev2.conns[-1] if len(self.dev2.conns) > n2 else None
        cur = {"conn": None, "port": None, "dropped": False}
        trace = []

        async def note_new_conn(before):
            for _ in range(300):
                if len(dev.conns) > before:
                    break
                await asyncio.sleep(0)
            if len(dev.conns) > before:
                cur["conn"] = dev.conns[-1]
                cur["dropped"] = False
                cur["unread"] = False
                sn = api._writer.get_extra_info("sockname")
                cur["port"] = sn[1] if sn else None

        async def expect_eof(after):
            conn = cur["conn"]
            if conn is None or cur["dropped"] or conn.closed:
                return
            acc.count("eof_expected")
            if await td.wait_eof(conn, 5.0):
                acc.count("eof_seen_by_device")
                late_reply = len(conn.sent) > cur.get("sent_before_action", 0)
                if conn.reset and cur.get("unread") and late_reply:
                    # the device answered into a socket the client had already closed (the client had run ahead of it on stale
                    # data): the reset is TCP's reply to that, not a verdict on how the client closes
                    acc.count("resets_explained_by_a_reply_sent_after_the_close")
                elif conn.reset and cur.get("unread"):
                    acc.violation("socket-reset-instead-of-end-of-stream", f"type {t} history {history}: after {after!r} the device's read failed with a connection "
                                  f"reset instead of ending: about 6 KB of its data were still unread on the client side when the socket was closed",
                                  {"history": history, "after": after, "trace": trace})
                elif conn.reset:
                    acc.count("resets_seen_without_unread_data")
                return
            if cur["port"] and kernel_established(cur["port"], dev.ip, conn.port):
                acc.violation("socket-left-open", f"type {t} history {history}: after {after!r} the device never saw end-of-stream and the kernel "
                              f"still lists the connection as ESTABLISHED", {"history": history, "after": after})
            else:
                acc.inconclusive_because("end-of-stream not observed within 5 s but the kernel row is gone")

        async def do_op():
            try:
                if t == 1:
                    await api.get_state()
                else:
                    await api.get_shutter_state()
                return "returned"
            except Exception as exc:
                return type(exc).__name__

        import time_machine

        rs = env.rng("C18t", t, history)
        tm = time_machine.travel(1_770_000_000.0 + rs.randrange(10 ** 6), tick=False)
        traveller = tm.start()
        steps = []
        try:
            await self._actions(locals())
        finally:
            tm.stop()
        await self._after(locals())

    async def _actions(self, L):
        acc, history, t, api, dev, mode, cur, trace = (L[k] for k in ("acc", "history", "t", "api", "dev", "mode", "cur", "trace"))
        note_new_conn, expect_eof, do_op, bystander, bconn, rs, traveller, steps = (
            L[k] for k in ("note_new_conn", "expect_eof", "do_op", "bystander", "bconn", "rs", "traveller", "steps"))
        model = False

        def check_flag(after):
            got = api.connected
            if got is not model:
                mech = "connected-after-disconnect" if (got and not model) else "not-connected-after-connect"
                if after in ("refused",):
                    mech = "connected-after-refused-connect"
                acc.violation(mech, f"type {t} history {history}: after {after!r} connected={got}, model says {model}",
                              {"history": history, "after": after, "trace": trace})

        def hung(what, exc):
            trace.append(f"{what} hung")
            acc.violation(f"{what}-never-completes", f"type {t} history {history}: {what} with a listening, answering device: {exc}; the wall clock was "
                          f"stepped by {steps[-4:]} s before the last actions", {"history": history, "trace": trace, "clock_steps": steps})

        for a in history:
            acc.ev()
            acc.count(f"action_{a}")
            cur["sent_before_action"] = len(cur["conn"].sent) if cur.get("conn") is not None else 0
            # the host's wall clock is not monotonic: NTP steps, manual corrections, suspended machines
            env.idle(rs.choice([0, 0, 0, 0.3, 2, 12, 61, 900, 86400]))      # ... and real time passes between the calls
            step = rs.choice([0, 0, 0, 1, 75, 3600, -2, -1800, -86400])
            steps.append(step)
            if step:
                traveller.shift(step)
                acc.count("clock_steps_forward" if step > 0 else "clock_steps_backward")
            if a == "connect":
                before = len(dev.conns)
                mode["login"] = "ok"
                try:
                    await bounded(api.connect())
                    model = True
                    trace.append("connect ok")
                except Hung as exc:
                    hung("connect", exc)
                    break
                except Exception as exc:
                    trace.append(f"connect raised {type(exc).__name__}")
                    acc.violation("connect-failed", f"history {history}: connect to a listening device raised {type(exc).__name__}: {exc}", {"history": history})
                await note_new_conn(before)
            elif a == "connect_cancelled":
                # the caller gives up on connect() after k loop cycles (task cancelled, wait_for / timeout expired) ...
                before = len(dev.conns)
                mode["login"] = "ok"
                k = rs.randrange(0, 5)
                task = asyncio.ensure_future(api.connect())
                for _ in range(k):
                    await asyncio.sleep(0)
                task.cancel()
                try:
                    await task
                    outcome = "finished before the cancel"
                    model = True
                    await note_new_conn(before)
                except asyncio.CancelledError:
                    outcome = "cancelled"
                except Exception as exc:
                    outcome = f"raised {type(exc).__name__}"
                    acc.violation("connect-failed", f"history {history}: a connect cancelled after {k} cycles raised {type(exc).__name__}: {exc}", {"history": history})
                acc.count("connects_cancelled_midway" if outcome == "cancelled" else "connects_finished_before_the_cancel")
                trace.append(f"connect cancelled after {k} cycles: {outcome}")
                check_flag(a)
                if model:
                    try:
                        await bounded(api.disconnect())
                    except Exception as exc:
                        acc.violation("disconnect-raised", f"history {history}: disconnect raised {type(exc).__name__}: {exc}", {"history": history, "trace": trace})
                    model = False
                    await expect_eof(a)
                    cur["conn"] = None
                # ... and the client can connect again afterwards
                before = len(dev.conns)
                try:
                    await bounded(api.connect())
                    model = True
                    await note_new_conn(before)
                    check_flag("connect after a cancelled connect")
                    out = await do_op()
                    if out != "returned":
                        acc.violation("healthy-operation-failed", f"history {history}: operation after reconnecting ended with {out}", {"history": history, "trace": trace})
                    await bounded(api.disconnect())
                    model = False
                    await expect_eof("disconnect after a cancelled connect")
                    cur["conn"] = None
                except Hung as exc:
                    hung("connect", exc)
                    break
                except Exception as exc:
                    trace.append(f"connect after cancelled connect raised {type(exc).__name__}")
                    acc.violation("cannot-connect-after-cancelled-connect", f"type {t} history {history}: after a connect() that was cancelled after {k} loop cycles "
                                  f"({outcome}), connect raised {type(exc).__name__}: {exc}", {"history": history, "trace": trace})
                    model = api.connected and False
            elif a == "disconnect_during_op":
                # another task of the application disconnects while an operation is waiting for the device's reply
                mode["login"] = "ok"
                arrived, hold = asyncio.Event(), asyncio.Event()
                held_at = rs.randrange(0, 2)
                base_frames = len(cur["conn"].frames) if cur["conn"] is not None else 0

                async def gate(conn, idx, frame):
                    if conn is cur["conn"] and idx - base_frames == held_at:
                        arrived.set()
                        await hold.wait()

                dev.gate = gate
                task = asyncio.ensure_future(do_op())
                for _ in range(2000):
                    if arrived.is_set() or task.done():
                        break
                    await asyncio.sleep(0)
                in_flight = arrived.is_set() and not task.done()
                acc.count("disconnects_while_an_operation_was_in_flight" if in_flight else "disconnects_right_after_an_operation")
                try:
                    await bounded(api.disconnect())
                    trace.append(f"disconnect during op (in flight: {in_flight}) ok")
                except Hung as exc:
                    hold.set()
                    dev.gate = None
                    hung("disconnect", exc)
                    break
                except Exception as exc:
                    trace.append(f"disconnect during op raised {type(exc).__name__}")
                    acc.count("disconnect_raised")
                model = False
                hold.set()
                dev.gate = None
                try:
                    await bounded(task, 5.0)          # how the interrupted operation ends is its own business
                except BaseException:
                    acc.count("interrupted_operations_that_never_ended")
                cur["unread"] = False      # the device answered into a socket that was already closed: a reset on its side says nothing here
                await expect_eof(a)
                cur["conn"] = None
            elif a == "op_ok":
                mode["login"] = "ok"
                out = await do_op()
                trace.append(f"op_ok {out}")
                if out != "returned" and not cur["dropped"] and not cur.get("unread") and not (cur["conn"] and cur["conn"].half_closed):
                    acc.violation("healthy-operation-failed", f"history {history}: operation on a healthy connection ended with {out}", {"history": history, "trace": trace})
            elif a == "op_big":
                # the device answers with 6 KB and then pushes a little more, unasked; the client leaves most of it unread
                mode["login"] = "big" if rs.random() < 0.6 else "biglogin"
                out = await do_op()
                mode["login"] = "ok"
                conn_now = cur["conn"]
                if conn_now is not None and not conn_now.closed and not cur["dropped"]:
                    try:
                        conn_now.writer.write(b"\xfe\xf0" + bytes(98))
                        await conn_now.writer.drain()
                    except Exception:
                        pass
                    for _ in range(60):          # let the client's stream reader take in what it is willing to take
                        await asyncio.sleep(0)
                    await asyncio.sleep(0.005)
                    cur["unread"] = True
                trace.append(f"op_big {out}")
            elif a == "op_garbage":
                mode["login"] = "garbage"
                out = await do_op()
                mode["login"] = "ok"
                trace.append(f"op_garbage {out}")
            elif a == "op_raise":
                mode["login"] = "eof"
                out = await do_op()
                mode["login"] = "ok"
                trace.append(f"op_raise {out}")
            elif a == "drop":
                mode["login"] = "drop"
                out1 = await do_op()   # the device closes the connection on this frame
                cur["dropped"] = True
                await asyncio.sleep(0.01)
                out2 = await do_op()   # the client keeps using the dead connection
                out3 = await do_op()
                mode["login"] = "ok"
                trace.append(f"drop {out1} {out2} {out3}")
            elif a == "disconnect_twice_at_once":
                # two tasks of the application disconnect the same client at the same time (a watchdog and the owner)
                results = await asyncio.gather(bounded(api.disconnect()), bounded(api.disconnect()), return_exceptions=True)
                trace.append(f"two disconnects at once: {[type(x).__name__ if x is not None else 'ok' for x in results]}")
                for x in results:
                    if isinstance(x, Hung):
                        hung("disconnect", x)
                    elif isinstance(x, BaseException) and not cur["dropped"]:
                        acc.violation("disconnect-raised", f"type {t} history {history}: one of two concurrent disconnect() calls raised {type(x).__name__}: {x}",
                                      {"history": history, "trace": trace})
                model = False
                await expect_eof(a)
                cur["conn"] = None
            elif a == "disconnect":
                try:
                    await bounded(api.disconnect())
                    trace.append("disconnect ok")
                except Hung as exc:
                    hung("disconnect", exc)
                    break
                except Exception as exc:
                    trace.append(f"disconnect raised {type(exc).__name__}")
                    acc.count("disconnect_raised")
                    if not cur["dropped"]:
                        acc.violation("disconnect-raised", f"history {history}: disconnect raised {type(exc).__name__}: {exc} (no device-side drop before)",
                                      {"history": history, "trace": trace})
                model = False
                await expect_eof(a)
                cur["conn"] = None
            elif a == "refused":
                # the device is gone altogether - or only the control port of this protocol type is closed while the other one listens
                only_own_port = rs.random() < 0.5
                if only_own_port:
                    await dev.stop_port(api._port)
                    others_before = len(dev.conns)
                    acc.count("refused_with_the_other_control_port_listening")
                else:
                    await dev.stop()
                try:
                    await bounded(api.connect())
                    trace.append("refused: connect returned")
                    acc.violation("refused-connect-returned", f"history {history}: connect to a closed port returned", {"history": history})
                    model = True
                except OSError as exc:
                    trace.append(f"refused: {type(exc).__name__}")
                except Hung as exc:
                    hung("refused-connect", exc)
                    await dev.start()
                    dev.conns.clear()
                    break
                except Exception as exc:
                    trace.append(f"refused: {type(exc).__name__}")
                    acc.violation("refused-connect-wrong-exception", f"history {history}: refused connect raised {type(exc).__name__}", {"history": history})
                if only_own_port:
                    for _ in range(10):
                        await asyncio.sleep(0)
                    if len(dev.conns) > others_before:
                        acc.violation("refused-connect-went-to-another-port", f"type {t} history {history}: port {api._port} refused the connection and the client "
                                      f"connected to port {dev.conns[-1].port} of the same address instead", {"history": history, "trace": trace})
                await dev.start()
                dev.conns.clear()
            elif a in ("ctx_ok", "ctx_exc"):
                before = len(dev.conns)
                mode["login"] = "ok"
                seen = {"inside": None, "out": None}
                # what the body does with the device, and whether the device is still well when the body fails
                if t == 1:
                    body = rs.choice([["get_state"], ["turn_on"], ["get_state", "turn_off"], ["set_auto_shutdown"], []])
                else:
                    body = rs.choice([["get_shutter_state"], ["set_position"], ["set_position", "get_shutter_state"], ["stop"],
                                      ["set_position", "stop"], ["stop", "set_position"], ["get_breeze_state"], []])
                device_dies = a == "ctx_exc" and rs.random() < 0.5
                body_exc = BODY_EXCEPTIONS[(len(trace) + len(history) + t) % len(BODY_EXCEPTIONS)]

                async def block():
                    async with api as entered:
                        seen["inside"] = api.connected
                        await note_new_conn(before)
                        if entered is not api:
                            acc.violation("aenter-returned-other", "async with did not yield the api object", {})
                        outs = []
                        for op in body:
                            r_ = env.rng("C18b", t, history, op)
                            try:
                                await ops.call(api, op, ops.gen_args(op, r_, {}, hostile=False), None)
                                outs.append("returned")
                            except Exception as exc:
                                outs.append(type(exc).__name__)
                        seen["out"] = outs
                        if a == "ctx_exc":
                            if device_dies:
                                # the usual reason a body fails: the device went quiet; it ends every later exchange at the login
                                mode["login"] = "eof"
                            # ... though what the body raises need not have anything to do with this client's socket
                            if issubclass(body_exc, OSError) and rs.random() < 0.6:
                                # as the operating system raises them: with an errno (the failure of some other socket of the application)
                                import os as _os

                                eno = {ConnectionResetError: 104, TimeoutError: 110, ConnectionRefusedError: 111, BrokenPipeError: 32}.get(body_exc, 5)
                                raise body_exc(eno, _os.strerror(eno))
                            if body_exc is asyncio.CancelledError and rs.random() < 0.7:
                                # cancelled from outside while the body waits for something (what wait_for / asyncio.timeout / shutdown do)
                                asyncio.get_running_loop().call_soon(asyncio.current_task().cancel)
                                await asyncio.Event().wait()
                            raise body_exc("raised by the body of async with")

                try:
                    await bounded(block())
                    trace.append(f"{a} body {body} {seen['out']}")
                except Hung as exc:
                    hung("async-with", exc)
                    mode["login"] = "ok"
                    break
                except BODY_EXCEPTIONS as exc:
                    trace.append(f"ctx_exc body {body} {seen['out']} device_dies={device_dies}: {type(exc).__name__} propagated")
                    acc.count(f"body_exception_{type(exc).__name__}")
                    if device_dies:
                        acc.count("body_failed_with_device_gone_quiet")
                    if a != "ctx_exc":
                        acc.violation("context-manager-failed", f"history {history}: async with raised {type(exc).__name__}: {exc}", {"history": history})
                    elif type(exc) is not body_exc:
                        acc.count("body_exception_replaced_by_another")   # not part of the statement: recorded, not judged
                except Exception as exc:
                    trace.append(f"{a} raised {type(exc).__name__}")
                    acc.violation("context-manager-failed", f"history {history}: async with raised {type(exc).__name__}: {exc}", {"history": history})
                mode["login"] = "ok"
                if seen["inside"] is not True:
                    acc.violation("not-connected-inside-context", f"history {history}: connected={seen['inside']} inside async with", {"history": history})
                if seen["out"] and any(o != "returned" for o in seen["out"]) and not cur["dropped"]:
                    acc.violation("healthy-operation-failed", f"type {t} history {history}: inside async with, {body} on a healthy connection ended with "
                                  f"{seen['out']}", {"history": history, "trace": trace})
                model = False
                await expect_eof(a)
                cur["conn"] = None
            check_flag(a)
            if model and cur["conn"] is not None and not cur["dropped"] and not cur["conn"].closed:
                # connected means connected: the device must not have seen this client's end-of-stream yet
                for _ in range(4):
                    await asyncio.sleep(0)
                if cur["conn"].eof_seen.is_set():
                    acc.violation("socket-closed-while-connected", f"type {t} history {history}: after {a!r} the client reports connected={api.connected} but the device "
                                  f"has already seen the end of this connection", {"history": history, "after": a, "trace": trace})
                    cur["dropped"] = True
            if bystander.connected is not True or (bconn is not None and bconn.eof_seen.is_set()):
                acc.violation("other-instance-affected", f"type {t} history {history}: after {a!r} an independent, connected instance reports "
                              f"connected={bystander.connected}, its device saw end-of-stream: {bconn.eof_seen.is_set() if bconn else '?'}",
                              {"history": history, "after": a, "trace": trace})
                break

    async def _after(self, L):
        acc, history, t, api, dev, trace, bystander, bconn, case = (L[k] for k in ("acc", "history", "t", "api", "dev", "trace", "bystander", "bconn", "case"))
        # the bystander must still work, then goes away cleanly
        try:
            if t == 1:
                await bystander.get_state()
            else:
                await bystander.get_shutter_state()
            acc.count("bystander_operations_ok")
        except Exception as exc:
            acc.violation("other-instance-affected", f"type {t} history {history}: the independent instance can no longer talk to its device: "
                          f"{type(exc).__name__}: {exc}", {"history": history, "trace": trace})
        try:
            await bystander.disconnect()
        except Exception as exc:
            acc.violation("disconnect-raised", f"type {t}: disconnect of an independent, healthy instance raised {type(exc).__name__}: {exc}", {"history": history})
        if bconn is not None and not await td.wait_eof(bconn, 5.0):
            acc.violation("socket-left-open", f"type {t}: the independent instance's disconnect did not reach its device", {"history": history})
        self.dev2.conns.clear()
        # tidy up so the next case starts clean
        try:
            await api.disconnect()
        except Exception:
            pass
        for c in dev.conns:
            if not c.closed:
                c.closed = True
                c.writer.close()
        dev.conns.clear()
        failure = any(a in ("op_raise", "op_garbage", "drop", "refused", "ctx_exc", "connect_cancelled", "disconnect_during_op") for a in history)
        reconnect = sum(1 for a in history if a in ("connect", "ctx_ok", "ctx_exc")) >= 2
        if failure or reconnect:
            acc.sig(env.sig(t, history))
        acc.count("histories")
        if case.get("exhaustive"):
            acc.count("exhaustive_histories")
        if "drop" in history and "disconnect" in history and len(acc.samples) < 3:
            acc.sample({"api_type": t, "history": history, "trace": trace})


PROP = C18()
