"""C15 - the IR command built is the stored code that best matches the request.

Generated IR code sets are written to a scratch database file, loaded through the
real SwitcherBreezeRemoteManager, and every request of the full request space is
built by the real remote and compared with the reference selection model.  Every
stored code has a unique text, so the payload identifies the key that was chosen.
"""

import json
import re
import shutil
import tempfile
from binascii import unhexlify
from pathlib import Path

from .. import env, gen
from ..prop import Prop
from ..ref import irsel

STATES = ["ON", "OFF"]
MODES = ["AUTO", "DRY", "FAN", "COOL", "HEAT"]
FANS = ["AUTO", "LOW", "MEDIUM", "HIGH"]
SWINGS = ["ON", "OFF"]
PREV = [None, "ON", "OFF"]


class C15(Prop):
    id = "C15"
    tour_every = 3
    level = "exploration"
    technique = "generated IR databases loaded through the real remote manager; every request of the full request space compared with an executable selection model (unique code texts identify the chosen key)"
    rule = ("case = one generated database file holding 3 IR sets (toggle / non-toggle x separate-swing ids / ordinary ids x dense..sparse key "
            "coverage, code texts of 3..2000 bytes); for each set all 2 x 5 x 61 x 4 x 2 x 3 = 14,640 requests (state, mode, temperature 0..60, "
            "fan, swing, previous state) are built, plus both separate swing commands and the capability summary; distinct = (set contents, "
            "request); non-trivial = requests whose chosen key differs from the naive full key (clamped temperature, dropped swing or fan, "
            "toggle prefix, plain off) or that are refused")
    level_text = ("Held-on-observed over the complete request space of every generated set: the payload must be the text stored under the most "
                  "specific available key (full, without swing, without fan), with clamping, plain off and toggle-prefix rules, the length field "
                  "must be the little-endian byte length, unsupported modes must be refused naming the supported ones, capabilities must equal what the set holds.")
    level_note = "trusts vf/ref/irsel.py (40 lines); requests for which none of the three candidate keys exists, and OFF on a non-toggle remote with an unsupported mode, are unspecified"
    assumptions = ["two-digit temperatures in keys (10..40)", "the swing-only command of a set without FUN_d0/FUN_d1 is unspecified"]
    anchors = ["aioswitcher.api.remotes:SwitcherBreezeRemote.build_command", "aioswitcher.api.remotes:SwitcherBreezeRemote.build_swing_command",
               "aioswitcher.api.remotes:SwitcherBreezeRemote._lookup_key_in_irset", "aioswitcher.api.remotes:SwitcherBreezeRemote._resolve_capabilities",
               "aioswitcher.api.remotes:SwitcherBreezeRemoteManager.get_remote", "aioswitcher.api.remotes:SwitcherBreezeCommand._get_command_length"]
    min_evaluations = {"quick": 300_000, "thorough": 5_000_000}
    budget_s = {"quick": 300, "thorough": 1200}

    async def setup(self, ctx):
        import aioswitcher.api.remotes as remotes
        import aioswitcher.device as dv

        self.remotes, self.dv = remotes, dv
        self.tmp = Path(tempfile.mkdtemp(prefix="vf-c15-"))
        self.E = {
            "state": {s: dv.DeviceState[s] for s in STATES}, "mode": {m: dv.ThermostatMode[m] for m in MODES},
            "fan": {f: dv.ThermostatFanLevel[f] for f in FANS}, "swing": {s: dv.ThermostatSwing[s] for s in SWINGS},
        }

    async def teardown(self, ctx):
        shutil.rmtree(self.tmp, ignore_errors=True)

    def cases(self, tier, seed, shard, nshards):
        n = {"quick": 16, "thorough": 640}[tier]
        for i in range(shard, n, nshards):
            yield {"i": i, "seed": seed}

    def run_case(self, case, acc, ctx):
        i = case["i"]
        r = env.rng("C15", case["seed"], i)
        sets = {}
        combos = [(t, s) for t in (False, True) for s in (False, True)]
        for k in range(3):
            toggle, special = combos[(i * 3 + k) % 4]
            while True:
                irs = gen.irset(r, toggle=toggle, special=special, long_codes=(k != 1))
                if irs["IRSetID"] not in sets:
                    break
            sets[irs["IRSetID"]] = irs
        db = self.tmp / ("remotes.json" if i % 2 else f"db{i}.json")      # an application regenerates its database under one name
        db.write_text(json.dumps(sets))
        mgr = self.remotes.SwitcherBreezeRemoteManager(str(db))
        for rid, irs in sets.items():
            try:
                remote = mgr.get_remote(rid)
            except Exception as exc:
                acc.violation("load-failed", f"get_remote({rid}) raised {type(exc).__name__}: {exc}", {"set": rid})
                continue
            if mgr.get_remote(rid) is not remote:
                acc.violation("manager-cache", f"get_remote({rid}) returned a different object on the second call", {})
            self._capabilities(acc, remote, irs)
            if i % 3 == 1:
                # the thermostat this remote belongs to is on the network too: its broadcasts are parsed by the same process
                from .. import tour

                tour.note_remote(rid)
                tour.hear_breeze(rid, env.rng("C15hear", i, rid))
                acc.count("remotes_whose_thermostat_was_heard_broadcasting")
            self._requests(acc, remote, irs)
            self._swing(acc, remote, irs)
        db.unlink()
        # a remote built directly from a set the application holds itself: the wave list in whatever iterable it has
        rid, irs = list(sets.items())[i % len(sets)]
        waves = irs["IRWaveList"]
        form, made = [("tuple", lambda: tuple(waves)), ("one-shot-iterator", lambda: iter(list(waves))),
                      ("generator", lambda: (dict(w) for w in waves)), ("reversed-list", lambda: list(reversed(waves)))][i % 4]
        acc.count(f"direct_remotes_from_{form}")
        try:
            direct = self.remotes.SwitcherBreezeRemote(dict(irs, IRWaveList=made()))
        except Exception as exc:
            acc.violation("load-failed:direct", f"SwitcherBreezeRemote(set with the wave list as {form}) raised {type(exc).__name__}: {exc}", {"set": rid, "form": form})
        else:
            real = acc.violation
            acc.violation = lambda mech, summary, detail=None, case=None: real(mech + ":wave-list-as-" + form, summary, detail, case)
            try:
                self._capabilities(acc, direct, irs)
                self._swing(acc, direct, irs)
                if i % 3 == 0:
                    self._requests(acc, direct, irs)
            finally:
                acc.violation = real
        if i % 4 == 0:
            rid, irs = next(iter(sets.items()))
            acc.sample({"set": rid, "toggle": irs["OnOffType"], "keys": len(irs["IRWaveList"]),
                        "some_keys": sorted(w["Key"] for w in irs["IRWaveList"])[:12],
                        "code_lengths": sorted({len(w["Para"]) + 1 + len(w["HexCode"]) for w in irs["IRWaveList"]})[:6]})

    def _capabilities(self, acc, remote, irs):
        caps = irsel.capabilities(irs)
        acc.ev()
        handed_out = remote.supported_modes
        got_modes = {getattr(m, "name", repr(m)) for m in handed_out}
        if isinstance(handed_out, list):
            # a caller may sort / filter the list it was given; the remote's own idea of its modes must not follow
            handed_out.clear()
            handed_out.append(self.dv.ThermostatMode.FAN if "FAN" not in got_modes else self.dv.ThermostatMode.HEAT)
            again = {getattr(m, "name", repr(m)) for m in remote.supported_modes}
            if again != got_modes:
                acc.violation("capability:modes-follow-callers-edit", f"{irs['IRSetID']}: after the caller edited the list it had been handed, supported modes are "
                              f"{sorted(again)} (were {sorted(got_modes)})", {"set": irs})
        if got_modes != set(caps["modes"]):
            acc.violation("capability:modes", f"{irs['IRSetID']}: supported modes {sorted(got_modes)}, set holds {sorted(caps['modes'])}", {"set": irs})
        if caps["min"] is not None and (remote.min_temperature, remote.max_temperature) != (caps["min"], caps["max"]):
            acc.violation("capability:temperature-range", f"{irs['IRSetID']}: range {remote.min_temperature}..{remote.max_temperature}, set holds {caps['min']}..{caps['max']}", {"set": irs})
        if remote.on_off_type is not caps["toggle"]:
            acc.violation("capability:toggle", f"{irs['IRSetID']}: on_off_type {remote.on_off_type}, set says {caps['toggle']}", {"set": irs})
        if remote.separated_swing_command is not caps["separate_swing"]:
            acc.violation("capability:separate-swing", f"{irs['IRSetID']}: separated_swing_command {remote.separated_swing_command}", {"set": irs})
        if remote.remote_id != irs["IRSetID"]:
            acc.violation("capability:remote-id", f"remote_id {remote.remote_id!r} for set {irs['IRSetID']}", {})
        acc.sig(env.sig("caps", irs["IRSetID"], caps["modes"], caps["min"], caps["max"], caps["toggle"]))

    def _check_command(self, acc, cmd, irs, key, req):
        want = irsel.payload_of(irs, key)
        try:
            got = unhexlify(cmd.command)
        except Exception:
            got = None
        if got != want:
            got_key = None
            for w in irs["IRWaveList"]:
                if got == bytes(4) + (w["Para"] + "|" + w["HexCode"]).encode():
                    got_key = w["Key"]
            mech = "wrong-key" if got_key else "payload-malformed"
            if got_key:
                kinds = []
                if got_key.startswith("on_") != key.startswith("on_"):
                    kinds.append("toggle-prefix")
                if ("_d1" in got_key) != ("_d1" in key):
                    kinds.append("swing")
                if re.sub(r"\D", "", got_key[:7]) != re.sub(r"\D", "", key[:7]):
                    kinds.append("temperature")
                if (got_key == "off") != (key == "off"):
                    kinds.append("off")
                mech += ":" + ("+".join(kinds) if kinds else "fan-or-mode")
            acc.violation(mech, f"{irs['IRSetID']} request {req}: built the code of key {got_key!r}, want key {key!r}",
                          {"set": irs, "request": req, "got_key": got_key, "want_key": key})
            return
        if str(cmd.length).lower() != irsel.length_field(want):
            acc.violation("length-field-wrong", f"{irs['IRSetID']} request {req}: payload of {len(want)} bytes has length field {cmd.length!r}, want {irsel.length_field(want)}",
                          {"request": req, "payload_bytes": len(want), "got": cmd.length})

    def _requests(self, acc, remote, irs):
        E = self.E
        n = nontrivial = unspec = 0
        from ..monitors.keepsake import Keep

        keep = Keep(limit=300)
        for state in STATES:
            for mode in MODES:
                for fan in FANS:
                    for swing in SWINGS:
                        for prev in PREV:
                            for temp in range(0, 61):
                                n += 1
                                sel = irsel.select(irs, state, mode, temp, fan, swing, prev)
                                if sel[0] == "unspecified":
                                    unspec += 1
                                    continue
                                req = {"state": state, "mode": mode, "temp": temp, "fan": fan, "swing": swing, "previous": prev}
                                try:
                                    cmd = remote.build_command(E["state"][state], E["mode"][mode], temp, E["fan"][fan], E["swing"][swing],
                                                               E["state"][prev] if prev else None)
                                except RuntimeError as exc:
                                    if sel[0] != "reject_mode":
                                        acc.violation("decided-request-refused", f"{irs['IRSetID']} request {req}: RuntimeError {exc}", {"set": irs, "request": req})
                                    else:
                                        words = set(re.findall(r"[a-z]+", str(exc).lower()))
                                        named = {m for m, disp in irsel.MODE_DISPLAY.items() if disp in words}
                                        if named - {mode} != set(sel[1]) - {mode}:
                                            acc.violation("refusal-names-wrong-modes", f"{irs['IRSetID']} request {req}: error names {sorted(named)}, supported are {sorted(sel[1])}",
                                                          {"request": req, "message": str(exc)})
                                        nontrivial += 1
                                    continue
                                except Exception as exc:
                                    acc.violation(f"build-raised:{type(exc).__name__}", f"{irs['IRSetID']} request {req}: {type(exc).__name__}: {exc}", {"set": irs, "request": req})
                                    continue
                                if sel[0] == "reject_mode":
                                    acc.violation("unsupported-mode-accepted", f"{irs['IRSetID']} request {req}: mode not in the set, yet a command was built", {"set": irs, "request": req})
                                    continue
                                key = sel[1]
                                self._check_command(acc, cmd, irs, key, req)
                                if n % 97 == 0:
                                    keep.add(cmd, f"command object built for {req}")
                                naive = irsel.MODE_PREFIX[mode] + (str(temp) if mode in ("COOL", "HEAT") else "") + irsel.FAN_SUFFIX[fan] + ("_d1" if swing == "ON" else "")
                                if key != naive:
                                    nontrivial += 1
        keep.verify(acc, "returned-command-changed-later", "the time thousands of later commands had been built on the same remote")
        # the same remote object, after thousands of different requests: some of the first ones again, a refused request twice in a
        # row (the second refusal is a refusal too), and an accepted one right after a refused one
        r2 = env.rng("C15", "again", irs["IRSetID"])
        supported = irsel.capabilities(irs)["modes"]
        unsupported = [m for m in MODES if m not in supported]
        for rep in range(160):
            state, fan, swing, prev = STATES[rep % 2], FANS[rep % 4], SWINGS[(rep // 4) % 2], PREV[(rep // 8) % 3]
            mode = MODES[(rep // 3) % 5] if rep % 5 else (unsupported[rep % len(unsupported)] if unsupported else MODES[0])
            temp = (rep * 7) % 61
            sel = irsel.select(irs, state, mode, temp, fan, swing, prev)
            if sel[0] == "unspecified":
                continue
            req = {"state": state, "mode": mode, "temp": temp, "fan": fan, "swing": swing, "previous": prev}
            for attempt in (1, 2):
                n += 1
                acc.count("requests_repeated_on_a_well_used_remote")
                try:
                    cmd = remote.build_command(E["state"][state], E["mode"][mode], temp, E["fan"][fan], E["swing"][swing], E["state"][prev] if prev else None)
                except RuntimeError as exc:
                    if sel[0] != "reject_mode":
                        acc.violation("decided-request-refused:on-a-well-used-remote", f"{irs['IRSetID']} request {req} (attempt {attempt}): RuntimeError {exc}", {"request": req})
                    continue
                except Exception as exc:
                    acc.violation(f"build-raised:{type(exc).__name__}", f"{irs['IRSetID']} request {req}: {type(exc).__name__}: {exc}", {"request": req})
                    continue
                if sel[0] == "reject_mode":
                    acc.violation("unsupported-mode-accepted:repeated", f"{irs['IRSetID']} request {req}: mode not in the set; attempt {attempt} of the same request in a row built a command",
                                  {"set": irs, "request": req, "attempt": attempt})
                    continue
                real = acc.violation
                acc.violation = lambda mech, summary, detail=None, case=None: real(mech + ":on-a-well-used-remote", summary, detail, case)
                try:
                    self._check_command(acc, cmd, irs, sel[1], req)
                finally:
                    acc.violation = real
        acc.ev(n - unspec)
        acc.skip_unspecified(unspec)
        acc.distinct(nontrivial)
        acc.count("requests_decided", n - unspec)
        acc.count("requests_nontrivial", nontrivial)

    def _swing(self, acc, remote, irs):
        keys = {w["Key"] for w in irs["IRWaveList"]}
        for swing, key in (("ON", "FUN_d1"), ("OFF", "FUN_d0")):
            if key not in keys:
                acc.skip_unspecified()
                continue
            acc.ev()
            try:
                cmd = remote.build_swing_command(self.E["swing"][swing])
            except Exception as exc:
                acc.violation("swing-command-raised", f"{irs['IRSetID']}: build_swing_command({swing}) raised {type(exc).__name__}", {})
                continue
            self._check_command(acc, cmd, irs, key, {"swing_only": swing})
            acc.count("swing_commands")


    def thread_pairs(self, ctx):
        r = env.rng("C15", "threads")
        irs = gen.irset(r, toggle=False, special=False, density=1.0, long_codes=False)
        remote = self.remotes.SwitcherBreezeRemote(irs)
        caps = irsel.capabilities(irs)
        E = self.E

        def req(mode, target, fan, swing):
            sel = irsel.select(irs, "ON", mode, target, fan, swing, None)
            want = irsel.payload_of(irs, sel[1]) if sel[0] == "key" else None

            def call():
                return unhexlify(remote.build_command(E["state"]["ON"], E["mode"][mode], target, E["fan"][fan], E["swing"][swing]).command)

            def j(res):
                if want is None:
                    return None
                return None if res == want else f"built {str(res)[:60]!r}, the request selects key {sel[1]!r} = {want[:40]!r}"
            return call, j

        modes = [m for m in caps["modes"] if m in ("COOL", "HEAT")] or caps["modes"]
        t_lo, t_hi = (caps["min"] or 20), (caps["max"] or 20)
        a_call, a_j = req(modes[0], t_lo, "LOW", "ON")
        b_call, b_j = req(modes[-1], t_hi, "HIGH", "OFF")
        c_call, c_j = req(caps["modes"][0], (t_lo + t_hi) // 2, "AUTO", "OFF")
        return [("build_command(A) || build_command(B) on one remote", a_call, b_call, a_j, b_j),
                ("build_command(B) || build_command(C) on one remote", b_call, c_call, b_j, c_j)]


PROP = C15()
