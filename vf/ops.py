"""The public operations of both APIs: how to call them from a JSON-able argument
dict, and what the reference says they must put on the wire.

expect(op, args, world) -> ("ok", [(kind, frame_args), ...])      command frames after the login frame
                         | ("ok_any", [[...], [...]])              several acceptable frame lists (DST overlap)
                         | ("reject", why)                         must raise, no command frame
                         | ("raise_after", n, exc_names)            must raise after exactly n command frames
                         | ("unspecified", why)
`world` carries what the oracle may know: zone, virtual now, the device's reported
thermostat state, the IR set of the remote.
"""

from datetime import timedelta
from typing import Any, Dict, List, Optional, Tuple

from .ref import broadcast as rb
from .ref import clock, irsel

T1_OPS = ["login", "get_state", "turn_on", "turn_on_timer", "turn_off", "set_auto_shutdown",
          "set_device_name", "get_schedules", "delete_schedule", "create_schedule"]
T2_OPS = ["login2", "stop", "set_position", "get_shutter_state", "get_breeze_state", "control_breeze"]
DAY_NAMES = ["MONDAY", "TUESDAY", "WEDNESDAY", "THURSDAY", "FRIDAY", "SATURDAY", "SUNDAY"]
DAY_BITS = {n: 2 << i for i, n in enumerate(DAY_NAMES)}
LOGIN_KIND = {1: "login", 2: "login2"}
MUTATED: List[Any] = []   # caller-owned arguments the library changed (drained by the checks)


def api_type(op: str) -> int:
    return 1 if op in T1_OPS else 2


# ------------------------------------------------------------------ calling


def _enums():
    import aioswitcher.device as dv
    from aioswitcher.api import Command
    from aioswitcher.schedule import Days

    return dv, Command, Days


def _num(value, form):
    """The same number as another kind of int: a member of an IntEnum, a bool (0/1), an int subclass."""
    if form == "intenum" and isinstance(value, int):
        import enum

        return enum.IntEnum("Preset", {"VALUE": value}).VALUE
    if form == "bool" and value in (0, 1):
        return bool(value)
    if form == "subclass" and isinstance(value, int):
        class Minutes(int):
            def __str__(self):
                return f"{int(self)} min"

            __repr__ = __str__
        return Minutes(value)
    return value


async def call(api, op: str, a: Dict[str, Any], remote=None):
    """Invoke the real API method for op with JSON-able args a."""
    dv, Command, Days = _enums()
    if op == "login":
        return await api._login()
    if op == "login2":
        return await api._login(dv.DeviceType[a.get("device_type", "BREEZE")])
    if op == "get_state":
        return await api.get_state()
    if op in ("turn_on", "turn_on_timer"):
        return await api.control_device(Command.ON, _num(a.get("minutes", 0), a.get("num_form")))
    if op == "turn_off":
        if "minutes" in a:
            return await api.control_device(Command.OFF, a["minutes"])
        return await api.control_device(Command.OFF)
    if op == "set_auto_shutdown":
        return await api.set_auto_shutdown(timedelta(seconds=a["seconds"]))
    if op == "set_device_name":
        return await api.set_device_name(a["name"])
    if op == "get_schedules":
        return await api.get_schedules()
    if op == "delete_schedule":
        return await api.delete_schedule(a["slot"])
    if op == "create_schedule":
        days = [Days[d] for d in a["days"]]
        form = a.get("days_form", "set")
        if form == "default":
            return await api.create_schedule(a["start"], a["end"])   # the library's own default for days
        arg = set(days) if form == "set" else (list(days) if form == "list" else tuple(days))
        before = list(arg)
        try:
            return await api.create_schedule(a["start"], a["end"], arg)
        finally:
            if list(arg) != before or len(arg) != len(before):
                MUTATED.append(("create_schedule.days", [d.name for d in before], [getattr(d, "name", repr(d)) for d in arg]))
    if op == "stop":
        return await api.stop()
    if op == "set_position":
        return await api.set_position(_num(a["position"], a.get("num_form")))
    if op == "get_shutter_state":
        return await api.get_shutter_state()
    if op == "get_breeze_state":
        return await api.get_breeze_state()
    if op == "control_breeze":
        kw = {}
        if a.get("state"):
            kw["state"] = dv.DeviceState[a["state"]]
        if a.get("mode"):
            kw["mode"] = dv.ThermostatMode[a["mode"]]
        if a.get("target"):
            kw["target_temp"] = a["target"]
        if a.get("fan"):
            kw["fan_level"] = dv.ThermostatFanLevel[a["fan"]]
        if a.get("swing"):
            kw["swing"] = dv.ThermostatSwing[a["swing"]]
        if a.get("update_state"):
            kw["update_state"] = True
        return await api.control_breeze_device(remote, **kw)
    raise KeyError(op)


# ------------------------------------------------------------------ expectations

UNAMBIGUOUS_MALFORMED = ["", "2100", "ab:cd", "24:00", "25:10", "12:60", "12:99", "-1:30", "12:-5", "noon", "07:30\n", "07\n:30", "21:00 ", "21:00\t", "12:30Z", "%H:%M", "1_2:30"]


def parse_clock(s: str) -> Optional[Tuple[int, int]]:
    """Canonical HH:MM only."""
    if len(s) == 5 and s[2] == ":" and s[:2].isascii() and s[3:].isascii() and s[:2].isdigit() and s[3:].isdigit():
        h, m = int(s[:2]), int(s[3:])
        if h < 24 and m < 60:
            return h, m
    return None


def breeze_plan(a: Dict[str, Any], reported: Dict[str, Any], irset: Dict[str, Any]):
    """What control_breeze_device must send after the login frame."""
    caps = irsel.capabilities(irset)
    sep = caps["separate_swing"]
    update = bool(a.get("update_state"))
    main = bool(a.get("state") or a.get("mode") or a.get("target") or a.get("fan") or (a.get("swing") and not sep))
    swing_cmd = bool(sep and a.get("swing") and not update)
    if not main and not swing_cmd:
        return ("raise_after", 0, ["RuntimeError"])
    out: List[Tuple[str, Dict[str, Any]]] = []
    if main:
        out.append(("get_state2", {}))
        st = a.get("state") or reported["state"]
        mode = a.get("mode") or reported["mode"]
        target = a.get("target") or reported["target"]
        fan = a.get("fan") or reported["fan"]
        swing = a.get("swing") or reported["swing"]
        if update:
            args = {"state": 1 if st == "ON" else 0, "mode": rb.MODES[mode], "target": target, "fan": rb.FANS[fan],
                    "swing": 1 if swing == "ON" else 0}
            if sep:
                args["swing_unspecified"] = True
                args["swing"] = 0
            out.append(("breeze_update", args))
        else:
            sel = irsel.select(irset, st, mode, target, fan, "OFF" if sep else swing, reported["state"])
            if sel[0] != "key":
                return ("unspecified", f"main command: {sel}")
            out.append(("breeze_command", {"payload": irsel.payload_of(irset, sel[1]), "key": sel[1]}))
    if swing_cmd:
        key = "FUN_d1" if a["swing"] == "ON" else "FUN_d0"
        if key not in {w["Key"] for w in irset["IRWaveList"]}:
            return ("unspecified", "set has no separate swing code")
        out.append(("breeze_command", {"payload": irsel.payload_of(irset, key), "key": key}))
    return ("ok", out)


def expect(op: str, a: Dict[str, Any], world: Dict[str, Any]):
    if op in ("login", "login2"):
        return ("ok", [])
    if op == "get_state":
        return ("ok", [("get_state", {})])
    if op in ("get_shutter_state", "get_breeze_state"):
        return ("ok", [("get_state2", {})])
    if op == "turn_off":
        m = a.get("minutes", 0)
        if m < 0:
            return ("unspecified", "negative minutes")
        if m * 60 >= 2 ** 32:
            return ("reject", "timer beyond 32 bits")
        return ("ok", [("control", {"on": False, "timer_s": m * 60})])
    if op in ("turn_on", "turn_on_timer"):
        m = a.get("minutes", 0)
        if m < 0:
            return ("unspecified", "negative minutes")
        if m * 60 >= 2 ** 32:
            return ("reject", "timer beyond 32 bits")
        return ("ok", [("control", {"on": True, "timer_s": m * 60})])
    if op == "set_auto_shutdown":
        s = a["seconds"]
        if s < 0:
            return ("unspecified", "negative timedelta")
        whole = (s // 60) * 60
        if 3600 <= whole <= 86340:
            return ("ok", [("set_auto_shutdown", {"seconds": whole})])
        return ("reject", "auto-shutdown outside 1h..23h59m")
    if op == "set_device_name":
        name = a["name"]
        nbytes = len(name.encode("utf-8"))
        if len(name) >= 2 and nbytes <= 32:
            return ("ok", [("set_name", {"name": name})])
        return ("reject", "name too short (fewer than 2 characters) or too long for 32 bytes")
    if op == "get_schedules":
        return ("ok", [("get_schedules", {})])
    if op == "delete_schedule":
        slot = a["slot"]
        if isinstance(slot, str) and len(slot) == 1 and slot in "01234567":
            return ("ok", [("delete_schedule", {"slot": int(slot)})])
        return ("unspecified", "slot id outside 0..7")
    if op == "create_schedule":
        days = a["days"]
        if len(set(days)) != len(days):
            return ("reject", "duplicate days")
        s, e = parse_clock(a["start"]), parse_clock(a["end"])
        for raw, parsed in ((a["start"], s), (a["end"], e)):
            if parsed is None:
                if raw in UNAMBIGUOUS_MALFORMED:
                    return ("reject", "malformed clock string")
                return ("unspecified", "non-canonical clock string")
        today = clock.local(world["zone"], world["now"]).date()
        se = clock.epochs_of(world["zone"], today, *s)
        ee = clock.epochs_of(world["zone"], today, *e)
        if not se or not ee:
            return ("unspecified", "time inside a spring-forward gap")
        mask = 0
        for d in days:
            mask |= DAY_BITS[d]
        alts = [[("create_schedule", {"mask": mask, "start": x, "end": y})] for x in se for y in ee]
        return ("ok", alts[0]) if len(alts) == 1 else ("ok_any", alts)
    if op == "stop":
        return ("ok", [("stop", {})])
    if op == "set_position":
        p = a["position"]
        if isinstance(p, int) and 0 <= p <= 100:
            return ("ok", [("set_position", {"position": p})])
        return ("unspecified", "position outside 0..100")
    if op == "control_breeze":
        return breeze_plan(a, world["reported"], world["irset"])
    raise KeyError(op)


# ------------------------------------------------------------------ argument generators


def gen_args(op: str, r, world: Dict[str, Any], hostile: bool = True) -> Dict[str, Any]:
    """Arguments for op; with hostile=True the rejected / boundary classes are frequent."""
    from . import gen

    if op == "turn_on_timer":
        x = r.random()
        lim = 2 ** 32 // 60
        if hostile and x < 0.12:
            return {"minutes": r.choice([1, 30, 90, 1440, r.randrange(1, 5000)]), "num_form": r.choice(["intenum", "subclass", "bool"])}
        if not hostile or x < 0.5:
            return {"minutes": r.choice([1, 2, 59, 60, 90, 1439, 1440, r.randrange(1, 100000)])}
        if x < 0.8:
            return {"minutes": lim + r.randrange(-40, 41)}
        if x < 0.9:
            return {"minutes": r.randrange(lim + 1, 4 * lim)}
        return {"minutes": r.randrange(1, lim)}
    if op == "turn_on":
        return {"minutes": 0}
    if op == "turn_off":
        # the caller's minutes are an argument like any other, whatever the flag
        if hostile and r.random() < 0.5:
            lim = 2 ** 32 // 60
            return {"minutes": r.choice([1, 45, 90, 1440, lim - 1, lim, lim + 1, lim + r.randrange(2, 1000), r.randrange(1, lim)])}
        return {}
    if op == "set_auto_shutdown":
        x = r.random()
        if not hostile:
            return {"seconds": r.randrange(3600, 86400)}
        if x < 0.3:
            return {"seconds": 3600 + r.randrange(-120, 121)}
        if x < 0.6:
            return {"seconds": 86340 + r.randrange(-120, 121)}
        if x < 0.9:
            return {"seconds": r.randrange(3600, 86400)}
        return {"seconds": r.choice([0, 1, 59, 60, 3599, 86400, 86401, 90000, 172800, r.randrange(0, 200000)])}
    if op == "set_device_name":
        if not hostile:
            return {"name": gen.name_fitting(r)}
        x = r.random()
        if x < 0.55:
            return {"name": gen.name_fitting(r)}
        if x < 0.8:
            return {"name": gen.name_of(r, r.randrange(0, 41))}
        if x < 0.9:
            # byte length straddling 32
            pool = r.choice(["hebrew", "accented", "cjk", "emoji", "composable", "composable"])
            if pool == "composable":
                # letters followed by combining marks (as typed on some keyboards): 3 bytes a glyph as given, 2 after composition -
                # the caller's bytes are what counts, for the length limit and on the wire
                glyphs = ["e\u0301", "o\u0308", "a\u030a", "n\u0303", "u\u0308", "c\u0327", "E\u0300"]
                name = "".join(r.choice(glyphs) for _ in range(r.choice([9, 10, 10, 11, 11, 11, 12, 14])))
                name += "".join(r.choice("abc xyz") for _ in range(r.randrange(0, 4)))
                return {"name": name}
            n = {"hebrew": 16, "accented": 16, "cjk": 10, "emoji": 8}[pool] + r.randrange(-1, 2)
            return {"name": gen.name_of(r, n, pool)}
        if r.random() < 0.4:
            return {"name": gen.name_of(r, 1)}          # a single character of any script: too short
        return {"name": gen.name_of(r, r.choice([0, 1, 2, 31, 32, 33]), "ascii")}
    if op == "delete_schedule":
        return {"slot": str(r.randrange(8))}
    if op == "create_schedule":
        k = r.randrange(0, 8)
        days = r.sample(DAY_NAMES, k)
        form = r.choice(["set", "set", "list", "tuple"])
        a = {"start": f"{r.randrange(24):02d}:{r.randrange(60):02d}", "end": f"{r.randrange(24):02d}:{r.randrange(60):02d}",
             "days": days, "days_form": form}
        if hostile:
            x = r.random()
            if x < 0.08:
                a["start" if r.random() < 0.5 else "end"] = r.choice(UNAMBIGUOUS_MALFORMED)
            elif x < 0.14 and k >= 1:
                a["days"] = days + [r.choice(days)]
                a["days_form"] = r.choice(["list", "tuple"])
        return a
    if op == "set_position":
        x = r.random()
        if x < 0.08:
            return {"position": r.randrange(0, 2), "num_form": "bool"}
        if x < 0.25:
            return {"position": r.randrange(0, 101), "num_form": r.choice(["intenum", "subclass"])}
        return {"position": r.randrange(0, 101)}
    if op == "login2":
        return {"device_type": r.choice(["BREEZE", "RUNNER", "RUNNER_MINI"])}
    if op == "control_breeze":
        a: Dict[str, Any] = {}
        if r.random() < 0.5:
            a["state"] = r.choice(["ON", "OFF"])
        if r.random() < 0.5:
            a["mode"] = r.choice(list(rb.MODES))
        if r.random() < 0.5:
            a["target"] = r.randrange(10, 41) if r.random() < 0.8 else r.randrange(1, 61)
        if r.random() < 0.5:
            a["fan"] = r.choice(list(rb.FANS))
        if r.random() < 0.5:
            a["swing"] = r.choice(["ON", "OFF"])
        if r.random() < 0.25:
            a["update_state"] = True
        return a
    return {}
