"""Paths, seed, tier and small shared helpers for the verification framework."""

import hashlib
import json
import os
import random
import sys
from pathlib import Path

import time as _time

# ---- elapsed real time, virtualised.  The library (and asyncio's timers) read time.monotonic / perf_counter through the
# patched names and see idle periods the harness declares with idle(); the harness's own watchdogs read REAL_MONOTONIC.
REAL_MONOTONIC = _time.monotonic
_real = {"monotonic": _time.monotonic, "monotonic_ns": _time.monotonic_ns, "perf_counter": _time.perf_counter, "perf_counter_ns": _time.perf_counter_ns}
_idle = {"s": 0.0, "installed": False, "jumps": 0}


def install_virtual_monotonic() -> None:
    """Worker processes only, before asyncio or the library look at a clock."""
    if _idle["installed"]:
        return
    _idle["installed"] = True
    _time.monotonic = lambda: _real["monotonic"]() + _idle["s"]
    _time.monotonic_ns = lambda: _real["monotonic_ns"]() + int(_idle["s"] * 1e9)
    _time.perf_counter = lambda: _real["perf_counter"]() + _idle["s"]
    _time.perf_counter_ns = lambda: _real["perf_counter_ns"]() + int(_idle["s"] * 1e9)


def idle(seconds: float) -> None:
    """Real time passes (monotonic clocks only move forward): nothing happens for `seconds`."""
    if _idle["installed"] and seconds > 0:
        _idle["s"] += float(seconds)
        _idle["jumps"] += 1


def idle_jumps() -> int:
    return _idle["jumps"]


def foreign_time_locale() -> str:
    """Make a non-English locale the process's LC_TIME locale (as desktop programs and many services do with setlocale).  Uses an
    installed one when there is one; otherwise derives one from the C.utf8 locale files with the weekday and month names
    replaced by same-length foreign ones (scratch copy under the system temp directory, removed at exit).  -> name or ''."""
    import atexit
    import locale
    import shutil
    import tempfile

    probe = (2024, 1, 1, 0, 0, 0, 0, 1, 0)      # a Monday
    for name in ("de_DE.UTF-8", "fr_FR.UTF-8", "es_ES.UTF-8", "fi_FI.UTF-8", "ru_RU.UTF-8"):
        try:
            locale.setlocale(locale.LC_TIME, name)
            if _time.strftime("%A", probe) != "Monday":
                return name
        except locale.Error:
            continue
    source = next((p for p in ("/usr/lib/locale/C.utf8", "/usr/lib/locale/C.UTF-8") if os.path.isdir(p)), None)
    if source is None:
        return ""
    root = tempfile.mkdtemp(prefix="vf-locale-")
    atexit.register(shutil.rmtree, root, True)
    target = os.path.join(root, "xx_XX.utf8")
    shutil.copytree(source, target)
    path = os.path.join(target, "LC_TIME")
    blob = open(path, "rb").read()
    names = {"Monday": "Montag", "Tuesday": "Tiistai", "Wednesday": "Miercoles", "Thursday": "Donderda", "Friday": "Fredag", "Saturday": "Lauantai",
             "Sunday": "Sondag", "January": "Januari", "February": "Februari", "August": "Agosto", "October": "Oktober", "December": "Dezember"}
    for english, foreign in names.items():
        for codec in ("ascii", "utf-32-le", "utf-32-be"):
            blob = blob.replace(english.encode(codec), foreign.encode(codec))
    open(path, "wb").write(blob)
    os.environ["LOCPATH"] = root
    try:
        locale.setlocale(locale.LC_TIME, "xx_XX.UTF-8")
    except locale.Error:
        return ""
    return "xx_XX.UTF-8 (derived)" if _time.strftime("%A", probe) != "Monday" else ""


async def wait_real(event, timeout_s: float) -> bool:
    """Wait for an asyncio.Event under a limit on the real clock (immune to idle() jumps)."""
    import asyncio

    t0, spin = REAL_MONOTONIC(), 0
    while not event.is_set():
        spin += 1
        await asyncio.sleep(0 if spin < 200 else 0.002)
        if REAL_MONOTONIC() - t0 > timeout_s:
            return event.is_set()
    return True


VERIF = Path(__file__).resolve().parent.parent
REPO = Path(os.environ.get("VERIF_REPO", "/repo")).resolve()
SRC = REPO / "src"
DEPS = VERIF / ".deps"
# VERIF_EVIDENCE_DIR redirects outputs when the checks are pointed at a scratch copy (mutant runs)
EVIDENCE = Path(os.environ["VERIF_EVIDENCE_DIR"]) if os.environ.get("VERIF_EVIDENCE_DIR") else VERIF / "evidence"
REPLAYS = (EVIDENCE.parent / "replays") if os.environ.get("VERIF_EVIDENCE_DIR") else VERIF / "replays"
WORK = VERIF / ".work"  # git-ignored scratch (worker result files)
PY = os.environ.get("VERIF_PY", "/venv/bin/python")
NCPU = max(1, min(16, os.cpu_count() or 1))

ZONES = [
    "UTC",
    "Asia/Jerusalem",
    "America/New_York",
    "America/St_Johns",
    "Australia/Lord_Howe",
    "Asia/Kathmandu",
    "Asia/Kolkata",
    "Pacific/Kiritimati",
    "Pacific/Pago_Pago",
    "Pacific/Chatham",
    "Europe/London",
    "America/Sao_Paulo",
    "Australia/Sydney",
    "America/Los_Angeles",
    # zones that are easily mistaken for one another: the same pair of abbreviations with different offsets
    # (CST/CDT: Chicago, Havana; CST/CST: Shanghai, Regina), the same offset on most days but not on all (Lagos, Berlin in winter)
    "America/Chicago",
    "America/Havana",
    "Asia/Shanghai",
    "America/Regina",
    "Africa/Lagos",
    "Europe/Berlin",
]


def seed() -> int:
    try:
        return int(os.environ.get("VERIF_SEED", "0"))
    except ValueError:
        return 0


def rng(*parts) -> random.Random:
    return random.Random("/".join(str(p) for p in parts))


def sig(*parts) -> int:
    """63-bit stable signature of a case description (for distinct counting)."""
    h = hashlib.blake2b(repr(parts).encode(), digest_size=8).digest()
    return int.from_bytes(h, "big") >> 1


def case_hash(case) -> str:
    return hashlib.blake2b(
        json.dumps(case, sort_keys=True, default=str).encode(), digest_size=8
    ).hexdigest()


def setup_sys_path() -> None:
    """Make the working tree of the repository and the contract libs importable."""
    for p in (str(DEPS), str(SRC)):
        if p in sys.path:
            sys.path.remove(p)
    sys.path.insert(0, str(DEPS))
    sys.path.insert(0, str(SRC))


def assert_repo_is_working_tree() -> None:
    import aioswitcher

    got = Path(aioswitcher.__file__).resolve()
    if SRC not in got.parents:
        raise RuntimeError(f"aioswitcher imported from {got}, expected under {SRC}")
