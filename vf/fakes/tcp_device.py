"""Scripted fake Switcher device (asyncio TCP server on a loopback address) and the
client-side wire spy.

Every address in 127/8 is loopback, so each worker binds its own
127.<16+shard>.a.b on the real ports 9957 (type 1) and 10000 (type 2) and the
real API classes are used unmodified.
"""

import asyncio
import itertools
from typing import Any, Callable, List, Optional

from ..ref import frames, replies

EOF = "EOF"    # reply "nothing": end of stream as a half-close, the device keeps reading
DROP = "DROP"  # the device closes the connection (both directions)

PORT_T1, PORT_T2 = 9957, 10000


class Conn:
    _ids = itertools.count(1)

    def __init__(self, device: "FakeDevice", port: int, reader, writer) -> None:
        self.id = next(Conn._ids)
        self.device, self.port, self.reader, self.writer = device, port, reader, writer
        self.frames: List[bytes] = []       # one entry per request received
        self.sent: List[Any] = []           # what was replied to each
        self.sessions: List[bytes] = []     # session ids issued on this connection (in order)
        self.raw = bytearray()              # the whole received stream
        self.eof_seen = asyncio.Event()     # the client closed its side
        self.closed = False
        self.half_closed = False
        self.reset = False                  # the stream ended with a reset instead of an orderly end-of-stream


class FakeDevice:
    """One fake device = one loopback IP with both control ports open."""

    def __init__(self, ip: str, ports=(PORT_T1, PORT_T2)) -> None:
        self.ip = ip
        self.ports = ports
        self.servers = []
        self._listening = {}
        self.conns: List[Conn] = []
        # responder(conn, index, frame) -> bytes | EOF | DROP ; may be async
        self.responder: Callable = auto_responder()
        # gate(conn, index, frame): awaited before the reply is sent (reply scheduler)
        self.gate: Optional[Callable] = None
        # lag(conn, index, frame) -> seconds of real time the device lets pass before it replies (None: replies at once)
        self.lag: Optional[Callable] = None
        self._session_counter = itertools.count(1)

    async def start(self) -> None:
        for port in self.ports:
            if port in self._listening:
                continue
            srv = await asyncio.start_server(lambda r, w, p=port: self._serve(p, r, w), host=self.ip, port=port, reuse_address=True)
            self.servers.append(srv)
            self._listening[port] = srv

    async def stop_port(self, port: int) -> None:
        """Stop listening on one control port only (the other one keeps accepting)."""
        srv = self._listening.pop(port, None)
        if srv is None:
            return
        self.servers.remove(srv)
        srv.close()
        for c in self.conns:
            if c.port == port and not c.closed:
                c.closed = True
                c.writer.close()
        try:
            await srv.wait_closed()
        except Exception:
            pass

    async def stop(self) -> None:
        for srv in self.servers:
            srv.close()
        for c in self.conns:
            if not c.closed:
                c.closed = True
                c.writer.close()
        for srv in self.servers:
            try:
                await srv.wait_closed()
            except Exception:
                pass
        self.servers = []
        self._listening = {}

    def fresh_session(self, rnd=None) -> bytes:
        """A session id never issued before by this device (so a stale one is unmistakable)."""
        n = next(self._session_counter)
        if rnd is not None and rnd.random() < 0.04:
            from ..gen import coincidence

            return coincidence(rnd, 4)      # a session id that happens to contain one of the protocol's own constants
        if rnd is not None and rnd.random() < 0.03:
            # boundary values a device may legitimately hand out (they can repeat; most ids stay unique)
            return rnd.choice([bytes(4), b"\xff" * 4, bytes.fromhex("fef0f0fe"), bytes.fromhex("00000001"), bytes.fromhex("30303030")])
        hi = rnd.randrange(1, 0xFFFF) if rnd else 0x5A5A
        return (hi << 16 | (n & 0xFFFF)).to_bytes(4, "big")

    async def _serve(self, port: int, reader, writer) -> None:
        conn = Conn(self, port, reader, writer)
        self.conns.append(conn)
        try:
            while True:
                data = await reader.read(65536)
                if not data:
                    conn.eof_seen.set()
                    break
                conn.raw += data
                idx = len(conn.frames)
                conn.frames.append(bytes(data))
                if conn.half_closed or conn.closed:
                    continue  # already answered "nothing": only record what still arrives
                action = self.responder(conn, idx, bytes(data))
                if asyncio.iscoroutine(action):
                    action = await action
                if self.gate is not None:
                    await self.gate(conn, idx, bytes(data))
                if self.lag is not None:
                    seconds = self.lag(conn, idx, bytes(data))
                    if seconds:
                        # the device takes its time: that much real (monotonic / event-loop) time passes before the reply, and the
                        # loop gets a few turns so that any timer the client armed around its read has fired by then
                        from ..env import idle

                        idle(seconds)
                        for _ in range(4):
                            await asyncio.sleep(0)
                conn.sent.append(action if isinstance(action, str) else bytes(action))
                if isinstance(action, str) and action == EOF:
                    conn.half_closed = True
                    if writer.can_write_eof():
                        writer.write_eof()
                elif isinstance(action, str) and action == DROP:
                    conn.closed = True
                    writer.close()
                    break
                else:
                    writer.write(action)
                    await writer.drain()
        except ConnectionError:
            conn.reset = True
            conn.eof_seen.set()
        except asyncio.CancelledError:
            conn.eof_seen.set()
        finally:
            if not conn.closed:
                conn.closed = True
                try:
                    writer.close()
                except Exception:
                    pass


def auto_responder(state1=None, shutter=None, thermostat=None, schedule_records=None, family="thermostat",
                   script: Optional[dict] = None, rnd=None):
    """Default behaviour of a healthy device.  `script` maps frame index -> forced action."""

    def respond(conn: Conn, idx: int, frame: bytes):
        if script and idx in script:
            act = script[idx]
            if callable(act):
                act = act(conn, idx, frame)
            if act is not None:
                return act
        kind = frames.classify(frame)
        if kind in ("login", "login2"):
            sess = conn.device.fresh_session(rnd)
            conn.sessions.append(sess)
            return replies.login(sess)
        if kind == "get_state":
            return replies.state1(state1 or {"state": "ON", "power": 2600, "time_left": 5400, "time_on": 60, "auto_shutdown": 10800})
        if kind == "get_state2":
            fam = family(conn) if callable(family) else family
            if fam == "shutter":
                return replies.shutter(shutter or {"position": 50, "direction": "STOP"})
            return replies.thermostat(thermostat or {"temp_tenths": 281, "state": "ON", "mode": "COOL", "target": 24,
                                                     "fan": "LOW", "swing": "OFF", "remote_id": "ELEC7001"})
        if kind == "get_schedules":
            return replies.schedules(schedule_records or [])
        return replies.ack()

    return respond


class WireSpy:
    """Wraps the connected API object's StreamWriter.write: the exact byte strings the client writes."""

    def __init__(self, api, on_write: Optional[Callable] = None) -> None:
        self.api = api
        self.writes: List[bytes] = []
        self.on_write = on_write
        writer = api._writer
        original = writer.write

        def spy(data):
            self.writes.append(bytes(data))
            out = original(data)
            if self.on_write is not None:
                self.on_write(self, bytes(data))
            return out

        writer.write = spy

    def mark(self) -> int:
        return len(self.writes)

    def since(self, mark: int) -> List[bytes]:
        return self.writes[mark:]


async def settle(conn: Conn, expected_bytes: int, cycles: int = 200) -> bool:
    """Let the loop run until the device has received `expected_bytes` on conn (conservation check)."""
    for _ in range(cycles):
        if len(conn.raw) >= expected_bytes:
            return True
        await asyncio.sleep(0)
    for _ in range(50):
        if len(conn.raw) >= expected_bytes:
            return True
        await asyncio.sleep(0.01)
    return len(conn.raw) >= expected_bytes


async def wait_eof(conn: Conn, timeout: float = 10.0) -> bool:
    from ..env import wait_real

    return await wait_real(conn.eof_seen, timeout)
