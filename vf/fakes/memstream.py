"""In-memory stream pair for the API classes (patched in for asyncio.open_connection).

The TCP fake device can only answer "nothing" by ending the stream, after which
every later read is empty too.  The unit tests of the repository model an empty
reply as a single read returning b''; this stream pair can do that as well: an
EMPTY action makes exactly one read return b'' and the exchange goes on, so
operation *histories* on one API instance can contain transient empty replies.
"""

import asyncio
from typing import Any, Callable, List

EMPTY = "EMPTY"


class MemConn:
    def __init__(self, responder: Callable) -> None:
        self.responder = responder
        self.frames: List[bytes] = []
        self.sent: List[Any] = []
        self.sessions: List[bytes] = []
        self.closed = False
        self.half_closed = False
        self.device = self  # auto_responder calls conn.device.fresh_session()
        self._n = 0
        self.id = id(self)
        self.port = 0

    def fresh_session(self, rnd=None) -> bytes:
        self._n += 1
        hi = rnd.randrange(1, 0xFFFF) if rnd else 0x4D4D
        return (hi << 16 | (self._n & 0xFFFF)).to_bytes(4, "big")


class MemWriter:
    def __init__(self, conn: MemConn) -> None:
        self.conn = conn
        self._closing = False

    def write(self, data: bytes) -> None:
        self.conn.frames.append(bytes(data))

    def close(self) -> None:
        self._closing = True
        self.conn.closed = True

    def is_closing(self) -> bool:
        return self._closing

    async def wait_closed(self) -> None:
        await asyncio.sleep(0)

    async def drain(self) -> None:
        await asyncio.sleep(0)

    def get_extra_info(self, name, default=None):
        return default


class MemReader:
    def __init__(self, conn: MemConn) -> None:
        self.conn = conn
        self._answered = 0

    async def read(self, n: int = -1) -> bytes:
        await asyncio.sleep(0)
        conn = self.conn
        if self._answered >= len(conn.frames):
            return b""  # nothing was asked: behave like end of stream
        idx = self._answered
        self._answered += 1
        action = conn.responder(conn, idx, conn.frames[idx])
        conn.sent.append(action if isinstance(action, str) else bytes(action))
        if isinstance(action, str):
            return b""
        return bytes(action)[:n] if n and n > 0 else bytes(action)


class Patch:
    """Context manager: aioswitcher.api.open_connection -> in-memory pair driven by `responder`."""

    def __init__(self, responder: Callable) -> None:
        self.responder = responder
        self.conns: List[MemConn] = []

    def __enter__(self):
        import aioswitcher.api as api_mod

        self.api_mod = api_mod
        self.original = api_mod.open_connection

        async def fake_open(host=None, port=None, **kw):
            conn = MemConn(self.responder)
            self.conns.append(conn)
            return MemReader(conn), MemWriter(conn)

        api_mod.open_connection = fake_open
        return self

    def __exit__(self, *exc):
        self.api_mod.open_connection = self.original
        return False
