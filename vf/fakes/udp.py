"""UDP side of the harness: datagram injector, callback-log monitor, sentinel barriers
and the kernel's per-socket counters from /proc/net/udp."""

import asyncio
import logging
import os
import socket
import sys
import warnings
from typing import Any, Callable, Dict, List, Optional

from ..ref import broadcast as rb

SENTINEL_BASE = 0xF00000  # device-id tags >= this are barriers, never judged


def proc_udp_row(port: int) -> Optional[Dict[str, int]]:
    try:
        for line in open("/proc/net/udp").read().splitlines()[1:]:
            f = line.split()
            if int(f[1].split(":")[1], 16) == port:
                return {"rx_queue": int(f[4].split(":")[1], 16), "drops": int(f[-1])}
    except (OSError, ValueError, IndexError):
        pass
    return None


def reclaim_leaked_datagram_sockets(ports) -> int:
    """Close asyncio datagram transports still bound to one of `ports` that nobody can stop any more (leaked by the code under
    test).  Only used to keep the harness going after it has already reported the leak.  -> number closed."""
    import gc

    wanted, closed = set(ports), 0
    for obj in gc.get_objects():
        if type(obj).__name__ == "_SelectorDatagramTransport":
            try:
                name = obj.get_extra_info("sockname")
                if name and name[1] in wanted and not obj.is_closing():
                    obj.close()
                    closed += 1
            except Exception:
                pass
    return closed


def can_bind(port: int) -> bool:
    s = socket.socket(socket.AF_INET, socket.SOCK_DGRAM)
    try:
        s.bind(("0.0.0.0", port))
        return True
    except OSError:
        return False
    finally:
        s.close()


class EventLog:
    """One ordered log for callback deliveries, warnings, WARNING+ log records and loop exceptions."""

    def __init__(self) -> None:
        self.events: List[tuple] = []   # (kind, payload)
        self.sentinels: Dict[str, asyncio.Event] = {}
        self.raise_on: Optional[Callable[[Any, int], bool]] = None
        # what a user callback may raise: anything, including exceptions that look like transport errors
        self.exc_types = (CallbackBoom, ConnectionRefusedError, ValueError, TimeoutError, KeyError, RuntimeError, BrokenPipeError, OSError)
        self.deliveries = 0
        self.consumer_edits = False

    def callback(self, device) -> None:
        self.deliveries += 1
        if self.consumer_edits and self.deliveries % 3 == 0 and hasattr(device, "name"):
            # a consumer that uses what it is given: the log keeps what was delivered, the delivered object itself is renamed
            import copy

            self.events.append(("device", copy.copy(device)))
            try:
                device.name = "renamed by its consumer"
                device.device_state = None
            except Exception:
                pass
        else:
            self.events.append(("device", device))
        ev = self.sentinels.get(getattr(device, "device_id", None))
        if ev is not None:
            ev.set()
            return
        if self.raise_on is not None and self.raise_on(device, self.deliveries):
            exc = self.exc_types[self.deliveries % len(self.exc_types)]
            raise exc(f"CallbackBoom: user callback fails on delivery {self.deliveries}")

    def clear(self) -> None:
        self.events.clear()


class CallbackBoom(Exception):
    pass


class _LogHandler(logging.Handler):
    def __init__(self, log: EventLog) -> None:
        super().__init__(level=logging.WARNING)
        self.log = log

    def emit(self, record: logging.LogRecord) -> None:
        self.log.events.append(("log", f"{record.levelname}:{record.getMessage()}"))


class UdpRig:
    def __init__(self, shard: int) -> None:
        self.shard = shard
        self.base = 21000 + 400 * (shard % 100)
        self._next = 0
        self.log = EventLog()
        self.sender = socket.socket(socket.AF_INET, socket.SOCK_DGRAM)
        self.sender.setsockopt(socket.SOL_SOCKET, socket.SO_SNDBUF, 1 << 20)
        self._sentinel_no = 0
        self._handler = _LogHandler(self.log)
        self._old_showwarning = None
        self._old_exc_handler = None
        self.kernel_drops = 0

    # ---- instrumentation of the process-wide channels
    def install(self, loop) -> None:
        logging.getLogger("aioswitcher").addHandler(self._handler)
        if not os.environ.get("VF_WARNINGS_CONFIGURED_EARLY"):
            warnings.simplefilter("always")
        if sys.flags.bytes_warning:
            warnings.filterwarnings("error", category=BytesWarning, module=r"aioswitcher(\..*)?$")
        self._old_showwarning = warnings.showwarning

        def showwarning(message, category, filename, lineno, file=None, line=None):
            if category is BytesWarning and "aioswitcher" not in str(filename):
                return      # the harness's own bytes/str comparisons under -b are not the library's
            self.log.events.append(("warning", f"{category.__name__}:{message}"))

        warnings.showwarning = showwarning

        def exc_handler(lp, context):
            exc = context.get("exception")
            self.log.events.append(("loop_exc", f"{type(exc).__name__}:{exc}" if exc else context.get("message", "?")))

        self._old_exc_handler = loop.get_exception_handler()
        loop.set_exception_handler(exc_handler)

    def uninstall(self, loop) -> None:
        logging.getLogger("aioswitcher").removeHandler(self._handler)
        if self._old_showwarning is not None:
            warnings.showwarning = self._old_showwarning
        loop.set_exception_handler(self._old_exc_handler)
        self.sender.close()

    # ---- ports
    def free_ports(self, n: int) -> List[int]:
        out, tried = [], 0
        while len(out) < n:
            p = self.base + (self._next % 390)
            self._next += 1
            tried += 1
            if can_bind(p):
                out.append(p)
            elif tried > 800:
                # a bridge under test that leaks its sockets can use up the whole block: reclaim what the garbage collector can find
                if reclaim_leaked_datagram_sockets(range(self.base, self.base + 390)) == 0 or tried > 2400:
                    raise RuntimeError("no free UDP port left in this worker's block")
        return out

    # ---- sending
    def send(self, port: int, data: bytes) -> None:
        self._sends = getattr(self, "_sends", 0) + 1
        if self._sends % 37 == 11:
            # the network was quiet for a while before this datagram: seconds to hours of real (monotonic) time
            from ..env import idle

            idle((0.7, 1.2, 3, 9, 31, 61, 400, 3700, 90000)[(self._sends // 37) % 9])
        self.sender.sendto(data, ("127.0.0.1", port))

    def send_from_another_socket(self, port: int, data: bytes) -> None:
        """Same destination, a different source socket (ordering between different sources is not guaranteed)."""
        if not hasattr(self, "_others"):
            self._others = [socket.socket(socket.AF_INET, socket.SOCK_DGRAM) for _ in range(6)]
        self._others[(len(data) + port) % 6].sendto(data, ("127.0.0.1", port))

    def sentinel_datagram(self) -> (str, bytes):
        self._sentinel_no += 1
        tag = f"{SENTINEL_BASE + (self._sentinel_no & 0xFFFFF):06x}"
        d = {"model": "V4", "device_id": tag, "device_key": "00", "name": "sentinel", "ip": "127.0.0.1", "mac": "00:00:00:00:00:00",
             "state": "OFF", "power": 0, "remaining": 0, "auto_shutdown": 3600}
        return tag, rb.encode(d)

    def send_sentinel(self, port: int) -> str:
        tag, data = self.sentinel_datagram()
        self.log.sentinels[tag] = asyncio.Event()
        self.send(port, data)
        return tag

    async def wait_sentinel(self, tag: str, port: int, timeout: float = 10.0) -> str:
        """-> 'ok' | 'dropped' (kernel loss: inconclusive) | 'lost' (consumed but never delivered)."""
        ev = self.log.sentinels[tag]
        from ..env import wait_real

        try:
            if await wait_real(ev, timeout):
                return "ok"
            row = proc_udp_row(port)
            if row and (row["drops"] > 0 or row["rx_queue"] > 0):
                # dropped by the kernel, or still queued because the loop was starved: no verdict either way
                self.kernel_drops += max(1, row["drops"])
                return "dropped"
            return "lost"
        finally:
            self.log.sentinels.pop(tag, None)

    async def barrier(self, port: int, timeout: float = 10.0) -> str:
        return await self.wait_sentinel(self.send_sentinel(port), port, timeout)


def is_sentinel(device) -> bool:
    try:
        return int(device.device_id, 16) >= SENTINEL_BASE
    except (ValueError, TypeError, AttributeError):
        return False


class Relay:
    """A consumer object whose bound method is the bridge's callback; the application keeps no other reference to it."""

    def __init__(self, log: EventLog) -> None:
        self.log = log

    def on_device(self, device) -> None:
        self.log.callback(device)


async def _wait_all_delivered(log: EventLog, n0: int, n: int, port: int, limit_s: float = 10.0):
    """Wait (real clock, generous) until n deliveries beyond n0 were made.  -> 'ok' | 'missing' (the socket is gone or has consumed
    everything it was sent without dropping: the deliveries are not coming) | 'unknown' (kernel drops or still queued: inconclusive)."""
    from ..env import REAL_MONOTONIC

    t0, spin = REAL_MONOTONIC(), 0
    while log.deliveries - n0 < n:
        spin += 1
        await asyncio.sleep(0 if spin < 200 else 0.002)
        if REAL_MONOTONIC() - t0 > limit_s:
            break
        if spin > 400 and spin % 50 == 0:
            row = proc_udp_row(port)
            if row is None or (row["drops"] == 0 and row["rx_queue"] == 0):
                # nothing is queued and nothing was dropped: give the loop a last few turns, then decide
                for _ in range(5):
                    await asyncio.sleep(0)
                if log.deliveries - n0 < n:
                    return "missing"
    if log.deliveries - n0 >= n:
        return "ok"
    row = proc_udp_row(port)
    return "missing" if row is None or (row["drops"] == 0 and row["rx_queue"] == 0) else "unknown"


async def unowned_bridge_probe(rig: "UdpRig", descs, keep_bridge: bool):
    """Start a bridge the way a set-up helper does - the callback is a bound method of an object nobody else references and
    (keep_bridge False) the bridge object itself goes out of scope once started - collect garbage, then send `descs`.
    -> (delivered devices, verdict of the wait).  The transports are closed afterwards."""
    import gc

    from aioswitcher.bridge import SwitcherBridge

    port = rig.free_ports(1)[0]
    log = EventLog()

    async def helper():
        bridge = SwitcherBridge(Relay(log).on_device, [port])
        await bridge.start()
        return (bridge if keep_bridge else None), [t for t in bridge._transports.values() if t is not None]   # transports: only to tidy up

    bridge, transports = await helper()
    gc.collect()
    await asyncio.sleep(0)
    gc.collect()
    try:
        for d in descs:
            rig.send(port, rb.encode(d))
        verdict = await _wait_all_delivered(log, 0, len(descs), port)
        for _ in range(3):
            await asyncio.sleep(0)
    finally:
        if bridge is not None:
            await bridge.stop()
        for t in transports:
            t.close()
        await asyncio.sleep(0)
    return [p for k, p in log.events if k == "device"], verdict


def second_loop_probe(make_bridge, port: int, datagrams, log: EventLog, sender):
    """Run in a worker thread: a brand-new event loop (asyncio.run) in which an already used bridge object is started again,
    fed `datagrams` and stopped.  -> (number of deliveries seen in that loop, verdict of the wait)."""

    async def main():
        bridge = make_bridge()
        await bridge.start()
        try:
            n0 = log.deliveries
            for data in datagrams:
                sender.sendto(data, ("127.0.0.1", port))
            verdict = await _wait_all_delivered(log, n0, len(datagrams), port)
            for _ in range(3):
                await asyncio.sleep(0)
            return log.deliveries - n0, verdict
        finally:
            await bridge.stop()
            await asyncio.sleep(0)

    return asyncio.run(main())


async def probe_bridges(rig: "UdpRig", n: int = 2):
    """n started bridges, each on its own port with its own list as callback: [(bridge, protocol object, delivered list)]."""
    from aioswitcher.bridge import SwitcherBridge

    out = []
    for _ in range(n):
        port = rig.free_ports(1)[0]
        got: List[Any] = []
        b = SwitcherBridge(got.append, [port])
        await b.start()
        out.append((b, getattr(b._transports[port], "_protocol", None), got))
    return out


def handed_over(proto, got: List[Any], data: bytes):
    """-> callable: hand `data` to the endpoint's protocol object as the event loop would; returns (exception name or None,
    delivered device objects, warning texts)."""
    def call():
        with warnings.catch_warnings(record=True) as caught:
            warnings.simplefilter("always")
            del got[:]
            exc = None
            try:
                proto.datagram_received(data, ("127.0.0.1", 40000))
            except Exception as e:
                exc = f"{type(e).__name__}: {e}"
            return (exc, list(got), [str(w.message) for w in caught])
    return call


def judge_delivery(desc):
    """desc None: nothing at all may happen; desc 'unknown': a warning, no device, no exception; else exactly that device."""
    def j(res):
        if not isinstance(res, tuple):
            return f"{res!r}"
        exc, devs, warns = res
        if exc:
            return f"raised {exc}"
        if desc is None:
            return None if not devs and not warns else f"caused {len(devs)} deliveries and warnings {warns[:1]}"
        if desc == "unknown":
            return None if not devs and any("unknown" in w.lower() for w in warns) else f"delivered {len(devs)} devices, warnings {warns[:1]}"
        if len(devs) != 1:
            return f"delivered {len(devs)} devices (warnings {warns[:1]}), want exactly one"
        bad = rb.compare_device(devs[0], desc)
        return None if not bad else f"delivered a device whose {bad[0][0]} is {bad[0][1]!r}, the broadcast says {bad[0][2]!r}"
    return j
