"""Shards a property check over worker subprocesses, merges what the monitors
observed, decides the three-valued verdict and writes the evidence file."""

import argparse
import json
import os
import shutil
import subprocess
import sys
import time
from pathlib import Path

from . import env

SCHEMA = env.VERIF / "schemas" / "EVIDENCE.schema.json"
KNOWN = env.VERIF / "known_findings.json"


def load_known(prop_id):
    try:
        data = json.loads(KNOWN.read_text())
    except FileNotFoundError:
        return []
    return [f for f in data.get("findings", []) if f.get("property") == prop_id]


def spawn(prop_id, tier, seed, shard, nshards, out, replay=None, pyflags=()):
    pyflags = list(pyflags)
    if shard % 4 == 1 and "-b" not in pyflags:
        pyflags.append("-b")      # bytes/str mix-ups are reported (the worker turns them into errors for library code, as -bb would)
    cmd = [
        env.PY, "-B", *pyflags, "-m", "vf.worker", prop_id,
        "--tier", tier, "--seed", str(seed),
        "--shard", str(shard), "--nshards", str(nshards), "--out", str(out),
    ]
    if replay:
        cmd += ["--replay", str(replay)]
    e = dict(os.environ)
    # set/dict iteration order of str- and enum-keyed containers differs between shards (and is still reproducible)
    e["PYTHONHASHSEED"] = str((seed * 131 + shard * 17) % 4_000_000_000)
    e["PYTHONPATH"] = str(env.VERIF)
    e["PYTHONDONTWRITEBYTECODE"] = "1"
    e.setdefault("TZ", "UTC")
    if shard % 7 == 3:
        # the process's locale and text encoding are the host's business: one worker in seven runs in the plain C locale
        # without UTF-8 mode (file system encoding and default open() encoding are ASCII there)
        e.update({"LC_ALL": "C", "LANG": "C", "PYTHONUTF8": "0", "PYTHONCOERCECLOCALE": "0"})
    log = open(str(out) + ".log", "w")
    return subprocess.Popen(cmd, cwd=str(env.VERIF), env=e, stdout=log, stderr=subprocess.STDOUT), log


def run(prop_id: str, tier: str, seed: int, replay=None, jobs=None) -> int:
    env.setup_sys_path()
    sys.path.insert(0, str(env.VERIF))
    from .worker import load_prop

    t0 = time.monotonic()
    prop = load_prop(prop_id)
    nshards = 1 if replay else min(jobs or env.NCPU, prop.nshards[tier])
    work = env.WORK / f"{prop_id}-{tier}-{os.getpid()}"
    shutil.rmtree(work, ignore_errors=True)
    work.mkdir(parents=True)
    budget = float(os.environ.get("VERIF_BUDGET_S", prop.budget_s[tier]))
    hard = budget * 3 + 180
    os.environ.setdefault("VERIF_HANG_DUMP_S", str(hard - 20))

    procs = []
    for s in range(nshards):
        out = work / f"shard{s}.json"
        p, log = spawn(prop_id, tier, seed, s, nshards, out, replay, prop.worker_pyflags(s, nshards))
        procs.append((s, p, log, out))

    results, inconclusive = [], []
    deadline = time.monotonic() + hard
    for s, p, log, out in procs:
        try:
            p.wait(timeout=max(1.0, deadline - time.monotonic()))
        except subprocess.TimeoutExpired:
            p.kill()
            p.wait()
            inconclusive.append(f"watchdog: shard {s} exceeded {hard:.0f}s")
        log.close()
        if out.exists():
            results.append(json.loads(out.read_text()))
        else:
            tail = Path(str(out) + ".log").read_text()[-2000:]
            inconclusive.append(f"shard {s} produced no result (exit {p.returncode}): {tail}")

    # ---- merge
    evaluations = sum(r["evaluations"] for r in results)
    sigs = set()
    for r in results:
        sigs.update(r["sigs"])
    distinct = len(sigs) + sum(r["disjoint_distinct"] for r in results)
    counters, vcounts, reached = {}, {}, {}
    for r in results:
        for k, v in r["counters"].items():
            counters[k] = counters.get(k, 0) + v
        for k, v in r["violation_counts"].items():
            vcounts[k] = vcounts.get(k, 0) + v
        for k, v in r.get("reached", {}).items():
            reached[k] = reached.get(k, 0) + v
        for reason in r["inconclusive"]:
            inconclusive.append(reason)
        if not r.get("ok") and r.get("traceback"):
            sys.stderr.write(r["traceback"])
    samples = []
    for r in results:
        for smp in r["samples"]:
            if len(samples) < 8:
                samples.append(smp)
    unspecified = sum(r["unspecified"] for r in results)

    if not replay:
        for a in prop.anchors:
            if reached.get(a, 0) == 0:
                inconclusive.append(f"anchored function never entered: {a}")
        if evaluations < prop.min_evaluations[tier]:
            inconclusive.append(
                f"only {evaluations} evaluations, fewer than the declared minimum {prop.min_evaluations[tier]}"
            )
        if distinct < 2:
            inconclusive.append("fewer than 2 distinct non-trivial cases observed")

    # ---- classify violations against the committed known-findings file
    known = load_known(prop_id)
    known_open = {f["mechanism"]: f for f in known if f.get("status") == "known"}
    kept = {}
    for r in results:
        for v in r["violations"]:
            kept.setdefault(v["mechanism"], []).append(v)
    lines, new_mechs = [], []
    rdir = env.REPLAYS / prop_id
    for mech, n in sorted(vcounts.items()):
        if mech in known_open:
            continue
        new_mechs.append(mech)
        first = None
        for v in kept.get(mech, [])[:3]:
            rdir.mkdir(parents=True, exist_ok=True)
            safe = "".join(c if c.isalnum() or c in "-_" else "_" for c in mech)
            path = rdir / f"{safe}-{env.case_hash(v['case'])}.json"
            path.write_text(json.dumps(
                {"property": prop_id, "tier": tier, "seed": seed, "mechanism": mech,
                 "summary": v["summary"], "detail": v["detail"], "case": v["case"]},
                indent=1, default=str))
            first = first or path
        lines.append((mech, n, first, (kept.get(mech) or [{}])[0].get("summary", "")))

    for f in known_open.values():
        print(f"KNOWN-FINDING: property={prop_id} {f['what']} "
              f"[mechanism={f['mechanism']} observed={vcounts.get(f['mechanism'], 0)}]")
    for mech, n, path, summary in lines:
        print(f"VIOLATION property={prop_id} replay={path}")
        print(f"  mechanism={mech} occurrences={n}: {summary}")

    wall = time.monotonic() - t0
    if not replay:
        coverage = {
            "evaluations": evaluations,
            "distinct_nontrivial": distinct,
            "rule": prop.rule,
            "samples": samples or ["(no sample recorded)"],
            "exhaustive": bool(prop.exhaustive[tier]) and not counters.get("truncated_by_budget"),
            "events": counters,
            "functions_entered": {k: reached[k] for k in sorted(reached)},
            "anchors_required": prop.anchors,
            "unspecified_skipped": unspecified,
            "violations_by_mechanism": vcounts,
            "known_findings_hit": {m: vcounts.get(m, 0) for m in known_open},
            "shards": nshards,
            "verdict": "violated" if new_mechs else ("inconclusive" if inconclusive else "held"),
            "inconclusive_reasons": inconclusive,
            "technique": prop.technique,
        }
        ev = {
            "property_id": prop_id, "tier": tier, "seed": seed, "level": prop.level,
            "coverage": coverage, "assumptions": prop.assumptions,
            "wall_s": round(wall, 2), "violations": sum(vcounts.get(m, 0) for m in new_mechs),
        }
        try:
            import jsonschema

            jsonschema.validate(ev, json.loads(SCHEMA.read_text()))
        except ImportError:
            pass
        except Exception as exc:  # noqa
            inconclusive.append(f"evidence does not validate: {exc}")
        env.EVIDENCE.mkdir(parents=True, exist_ok=True)
        (env.EVIDENCE / f"{prop_id}.json").write_text(json.dumps(ev, indent=1, default=str) + "\n")

    shutil.rmtree(work, ignore_errors=True)
    print(f"{prop_id} tier={tier} seed={seed} evaluations={evaluations} distinct={distinct} "
          f"unspecified={unspecified} violations={sum(vcounts.values())} wall={wall:.1f}s")
    if new_mechs:
        return 1
    if inconclusive:
        for reason in inconclusive[:10]:
            print(f"INCONCLUSIVE property={prop_id} reason={reason}")
        return 2
    print(f"HELD property={prop_id} on everything explored")
    return 0


def main() -> int:
    ap = argparse.ArgumentParser(prog="check")
    ap.add_argument("prop")
    ap.add_argument("--tier", default=os.environ.get("VERIF_TIER", "quick"), choices=["quick", "thorough"])
    ap.add_argument("--seed", type=int, default=env.seed())
    ap.add_argument("--replay")
    ap.add_argument("--jobs", type=int)
    a = ap.parse_args()
    return run(a.prop.upper(), a.tier, a.seed, a.replay, a.jobs)


if __name__ == "__main__":
    sys.exit(main())
