"""pytest plugin: run the repository's own tests with every contract monitor attached.
A contract that fires there is either too strict or a defect the tests do not assert."""
import sys

from vf import env

env.setup_sys_path()


def pytest_sessionstart(session):
    from vf.monitors import insitu
    from vf.props import c14

    session.config._vf_recs = dict(insitu.attach_all())
    session.config._vf_recs["calc_duration"] = c14.attach()
    from vf.props import c12

    session.config._vf_recs["bit_summary_to_days"] = c12.attach()[1]


def pytest_sessionfinish(session, exitstatus):
    recs = getattr(session.config, "_vf_recs", {})
    tw = sys.stderr
    bad = 0
    for name, rec in recs.items():
        fails = [f for f in rec.failures if f[0] != "monitor-error"]
        errs = [f for f in rec.failures if f[0] == "monitor-error"]
        print(f"[vf-contracts] {name}: {rec.evaluations} evaluations, {len(fails)} failures, {len(errs)} monitor errors", file=tw)
        for f in fails[:5]:
            print(f"[vf-contracts]    FAILED {f}", file=tw)
        bad += len(fails)
    print(f"[vf-contracts] TOTAL contract failures: {bad}", file=tw)
