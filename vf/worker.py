"""One worker subprocess: runs a shard of a property's cases under the monitors."""

import argparse
import asyncio
import faulthandler
import importlib
import inspect
import json
import os
import sys
import time
import traceback
import warnings

from . import env


def load_prop(prop_id: str):
    mod = importlib.import_module(f"vf.props.{prop_id.lower()}")
    return mod.PROP


def _crowd(acc):
    """The process is not empty: hundreds of the library's objects stay alive for the whole run, thousands more are created
    and dropped (their ids and hashes get reused by what the checks create later)."""
    import gc

    try:
        import aioswitcher.api as api_mod
        from aioswitcher.bridge import SwitcherBridge
        from aioswitcher.schedule.parser import SwitcherSchedule
    except Exception:
        return []
    kept = []
    for n in range(300):
        kept.append(api_mod.SwitcherType1Api(f"198.51.100.{n % 250 + 1}", f"{n:06x}", f"{n % 256:02x}"))
        kept.append(api_mod.SwitcherType2Api(f"203.0.113.{n % 250 + 1}", f"{n + 0x100000:06x}", f"{(n * 7) % 256:02x}"))
        if n % 3 == 0:
            kept.append(SwitcherBridge((lambda d, n=n: None), [30000 + n]))
        kept.append(SwitcherSchedule(str(n % 8), False, set(), "13:00", "14:00"))
    for n in range(3000):
        api_mod.SwitcherType1Api("192.0.2.77", f"{n:06x}", "00")
        SwitcherBridge(print, [31000 + n % 500])
    gc.collect()
    acc.count("library_objects_kept_alive_during_the_run", len(kept))
    acc.count("library_objects_created_and_dropped_before_the_run", 6000)
    return kept


async def _run(prop, args, acc, ctx):
    from .monitors import reach

    t0 = env.REAL_MONOTONIC()
    budget = float(os.environ.get("VERIF_BUDGET_S", prop.budget_s[args.tier]))
    await prop.setup(ctx)
    try:
        from .tour import Tour

        tour = Tour(args.shard, acc) if prop.tour and not args.replay else None
        if tour:
            tour.noisy = prop.tour_noisy
        if tour and args.shard % 4 == 2:
            # in these workers the rest of the application comes first of all (before the two-thread probes use anything)
            await tour.all_legs(order="udp-first" if args.shard % 8 == 2 else "tcp-first")
            acc.count("tour_before_anything_else")
        pairs = (lambda: prop.thread_pairs(ctx)) if type(prop).thread_pairs is not type(prop).__mro__[-2].thread_pairs else None
        if pairs:
            # before anything else uses the library in this process: two OS threads, every switch point of the first call
            from .monitors import threadops

            with warnings.catch_warnings():
                await asyncio.get_running_loop().run_in_executor(None, threadops.run_pairs, acc, pairs, args.shard, args.nshards)
        crowd = _crowd(acc)      # (after the first-use probes)
        # the rest of the application (vf/tour.py): every other feature of the library, used in the same process
        if tour and args.shard % 4 == 0:
            await tour.all_legs()     # in these workers every feature has been used before the check's first case
            acc.count("tour_before_the_first_case")
        if args.replay:
            cases = [json.load(open(args.replay))["case"]]
        else:
            cases = prop.cases(args.tier, args.seed, args.shard, args.nshards)
        is_async = inspect.iscoroutinefunction(prop.run_case)
        if tour and is_async and args.shard % 3 != 1:
            tour.start_background()    # ... and keeps being used while the check runs (not in every worker: undisturbed runs stay covered)
        n = 0
        for case in cases:
            acc.case = case
            # some applications (and most test suites) turn warnings into errors; every fifth case runs that way
            strict = prop.warnings_as_errors and (n * args.nshards + args.shard) % 5 == 3   # by position in the whole run, not per worker
            with warnings.catch_warnings():
                if strict:
                    warnings.simplefilter("error")
                    acc.count("cases_run_with_warnings_as_errors")
                if is_async:
                    await prop.run_case(case, acc, ctx)
                else:
                    prop.run_case(case, acc, ctx)
            n += 1
            if tour and n % prop.tour_every == 3:
                await tour.next_leg(direct=True)
            if (n & 15) == 0 and env.REAL_MONOTONIC() - t0 > budget:
                acc.count("truncated_by_budget")
                break
        acc.case = None
        if tour:
            await tour.close()
        prop.finish(acc, ctx)
        acc.count("idle_periods_of_virtual_real_time", env.idle_jumps())
    finally:
        await prop.teardown(ctx)
    return reach.counts()


def main() -> int:
    ap = argparse.ArgumentParser()
    ap.add_argument("prop")
    ap.add_argument("--tier", default="quick")
    ap.add_argument("--seed", type=int, default=0)
    ap.add_argument("--shard", type=int, default=0)
    ap.add_argument("--nshards", type=int, default=1)
    ap.add_argument("--out", required=True)
    ap.add_argument("--replay")
    args = ap.parse_args()

    env.install_virtual_monotonic()
    if args.shard % 3 == 2:
        # an application that configures warnings once, at start-up, before it imports anything (python -W always / PYTHONWARNINGS):
        # whatever the library does to the filters when it is imported comes after that - and in front of it
        warnings.simplefilter("always")
        os.environ["VF_WARNINGS_CONFIGURED_EARLY"] = "1"
    faulthandler.enable()
    # a hang dumps stacks shortly before the runner's watchdog kills the worker
    faulthandler.dump_traceback_later(
        float(os.environ.get("VERIF_HANG_DUMP_S", "3000")), exit=False
    )
    env.setup_sys_path()
    from .prop import Acc
    from .monitors import reach

    acc = Acc()
    out = {"ok": False}
    t0 = env.REAL_MONOTONIC()
    try:
        env.assert_repo_is_working_tree()
        prop = load_prop(args.prop)
        try:
            prop.selftest()
        except Exception as exc:  # oracle broken: inconclusive, never a violation
            acc.inconclusive_because(f"oracle self-test failed: {exc!r}")
            raise
        if args.shard % 2 == 1:
            # the log level is part of the host environment: half of the workers run with DEBUG enabled
            # (diagnostic lines are code too); records go to a handler that discards them
            import logging

            lg = logging.getLogger("aioswitcher")
            lg.setLevel(logging.DEBUG)
            lg.addHandler(logging.NullHandler())
            lg.propagate = False
        if sys.flags.bytes_warning:
            warnings.filterwarnings("error", category=BytesWarning, module=r"aioswitcher(\..*)?$")
            acc.count("bytes_warnings_are_errors_for_library_code")
        import locale as _locale

        acc.count(f"filesystem_encoding_{sys.getfilesystemencoding()}")
        if args.shard % 7 == 5 or (args.nshards <= 2 and args.shard == 0):
            # the application has called locale.setlocale for its own display purposes: weekday and month names are not English
            got_locale = env.foreign_time_locale()
            acc.count("workers_with_a_foreign_LC_TIME_locale" if got_locale else "foreign_LC_TIME_locale_unavailable")
        if args.shard % 3 == 1:
            # the decimal context is the application's to set; a third of the workers run with another rounding mode
            import decimal

            decimal.getcontext().rounding = decimal.ROUND_DOWN
            decimal.DefaultContext.rounding = decimal.ROUND_DOWN
        reach.start(str(env.SRC))
        ctx = {"tier": args.tier, "seed": args.seed, "shard": args.shard, "nshards": args.nshards}
        # the asyncio environment is the application's choice: one worker in five runs the loop in debug mode, another with
        # eager tasks (3.12), the others with the defaults
        flavour = ("default", "default", "debug", "default", "eager")[args.shard % 5]
        acc.count(f"event_loop_flavour_{flavour}")

        async def _main():
            if flavour == "eager" and hasattr(asyncio, "eager_task_factory"):
                asyncio.get_running_loop().set_task_factory(asyncio.eager_task_factory)
            return await _run(prop, args, acc, ctx)

        reached = asyncio.run(_main(), debug=(flavour == "debug"))
        reach.stop()
        out["reached"] = reached
        out["ok"] = True
    except BaseException as exc:  # harness failure: inconclusive
        acc.inconclusive_because(f"worker crashed: {type(exc).__name__}: {exc}")
        out["traceback"] = traceback.format_exc()
    out.update(acc.to_json())
    out["wall_s"] = env.REAL_MONOTONIC() - t0
    tmp = args.out + ".tmp"
    with open(tmp, "w") as fh:
        json.dump(out, fh, default=str)
    os.replace(tmp, args.out)
    return 0


if __name__ == "__main__":
    sys.exit(main())
