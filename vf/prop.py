"""Base class of a property check and the accumulator its monitors report into."""

import json
from typing import Any, Dict, Iterator, List

MAX_VIOLATIONS_KEPT = 40
MAX_SIGS_KEPT = 400_000
MAX_SAMPLES = 6


class Acc:
    """What the monitors of one worker observed."""

    def __init__(self) -> None:
        self.evaluations = 0
        self.sigs: set = set()
        self.sigs_overflow = 0
        self.disjoint_distinct = 0
        self.violations: List[Dict[str, Any]] = []
        self.violation_counts: Dict[str, int] = {}
        self.counters: Dict[str, int] = {}
        self.samples: List[Any] = []
        self.unspecified = 0
        self.inconclusive: List[str] = []
        self.case: Any = None  # current case (attached to violations)

    # -- reporting API used by the property modules
    def ev(self, n: int = 1) -> None:
        self.evaluations += n

    def sig(self, s: int) -> None:
        """Register the signature of a distinct, non-trivial case."""
        if len(self.sigs) < MAX_SIGS_KEPT:
            self.sigs.add(s)
        elif s not in self.sigs:
            self.sigs_overflow += 1  # counted conservatively: not added to distinct

    def distinct(self, n: int = 1) -> None:
        """Count cases that are distinct by construction (disjoint enumeration)."""
        self.disjoint_distinct += n

    def count(self, name: str, n: int = 1) -> None:
        self.counters[name] = self.counters.get(name, 0) + n

    def sample(self, obj: Any) -> None:
        if len(self.samples) < MAX_SAMPLES:
            self.samples.append(obj)

    def skip_unspecified(self, n: int = 1) -> None:
        self.unspecified += n

    def violation(self, mechanism: str, summary: str, detail: Any = None, case: Any = None) -> None:
        self.violation_counts[mechanism] = self.violation_counts.get(mechanism, 0) + 1
        per_mech = sum(1 for v in self.violations if v["mechanism"] == mechanism)
        if len(self.violations) < MAX_VIOLATIONS_KEPT and per_mech < 5:
            self.violations.append(
                {
                    "mechanism": mechanism,
                    "summary": summary,
                    "detail": detail,
                    "case": case if case is not None else self.case,
                }
            )

    def inconclusive_because(self, reason: str) -> None:
        if reason not in self.inconclusive:
            self.inconclusive.append(reason)

    def to_json(self) -> Dict[str, Any]:
        return {
            "evaluations": self.evaluations,
            "sigs": sorted(self.sigs),
            "sigs_overflow": self.sigs_overflow,
            "disjoint_distinct": self.disjoint_distinct,
            "violations": self.violations,
            "violation_counts": self.violation_counts,
            "counters": self.counters,
            "samples": self.samples,
            "unspecified": self.unspecified,
            "inconclusive": self.inconclusive,
        }


class Prop:
    """One property check: generator of cases, driver, oracle."""

    id = "C00"
    level = "exploration"
    technique = "runtime monitoring"
    rule = ""
    level_text = ""
    level_note = ""
    assumptions: List[str] = []
    # qualified "module:qualname" of repository functions the workload must enter
    anchors: List[str] = []
    # lower bounds below which a run is inconclusive
    warnings_as_errors = True   # every fifth case runs under warnings.simplefilter("error"); off where the statement itself demands a warning
    tour = True                 # vf/tour.py: the library's other features are used in the same process before / between / during the cases
    tour_noisy = True           # ... including what the bridge survives loudly (off for the checks that read the loop's exception channel themselves)
    tour_every = 40             # one tour leg after every so many cases
    min_evaluations = {"quick": 1, "thorough": 1}
    exhaustive = {"quick": False, "thorough": False}
    # soft wall-clock budget per worker (s); generation stops after it (truncated run)
    budget_s = {"quick": 300, "thorough": 900}
    nshards = {"quick": 16, "thorough": 16}

    def worker_pyflags(self, shard: int, nshards: int = 1) -> List[str]:
        """Extra interpreter flags for the worker of this shard (e.g. ['-O'])."""
        return []

    def thread_pairs(self, ctx):
        """[(name, fa, fb, judge_a, judge_b)] for the two-thread probe (vf.monitors.threadops); run right after setup."""
        return []

    def selftest(self) -> None:
        """Oracle self-test. Raise to make the run inconclusive (exit 2)."""

    def cases(self, tier: str, seed: int, shard: int, nshards: int) -> Iterator[Any]:
        raise NotImplementedError

    async def setup(self, ctx: Dict[str, Any]) -> None:
        pass

    async def teardown(self, ctx: Dict[str, Any]) -> None:
        pass

    def run_case(self, case: Any, acc: Acc, ctx: Dict[str, Any]):
        """Run one case; may be a coroutine function."""
        raise NotImplementedError

    def finish(self, acc: Acc, ctx: Dict[str, Any]) -> None:
        """Called once per worker after the last case (contract counters etc.)."""


def jdump(obj: Any) -> str:
    return json.dumps(obj, sort_keys=True, default=str)
