"""Shared TCP workload rig: fake devices on this worker's loopback block, connected
real API objects with a wire spy, and per-operation records."""

import asyncio
import itertools
import time
from typing import Any, Dict, List, Optional

from .fakes import tcp_device as td
from . import ops
from .env import REAL_MONOTONIC, idle


class OperationHung(Exception):
    """The operation neither returned nor raised although the device had sent everything it was going to send."""


_hangs_seen = 0
SHARED_CONTEXT = None      # set by a check while its clients are to share one context
_ops_run = 0
_IDLE_RNG = __import__("random").Random(20260928)
OP_TIMEOUT_S = 20.0   # real seconds: measured with time.monotonic below, immune to the virtual reply delays of C03   # generous: on loopback a reply is there in microseconds; only a client waiting for bytes nobody will send gets here


class OpRecord:
    __slots__ = ("op", "args", "writes", "outcome", "value", "exc", "frames_before", "sessions_before")

    def __init__(self, op, args):
        self.op, self.args = op, args
        self.writes: List[bytes] = []
        self.outcome = None  # "return" | "raise"
        self.value = None
        self.exc: Optional[BaseException] = None


class Client:
    """A real API object connected to a fake device, with the wire spy attached."""

    def __init__(self, api, spy: td.WireSpy, conn: td.Conn, device: td.FakeDevice):
        self.api, self.spy, self.conn, self.device = api, spy, conn, device

    async def run(self, op: str, args: Dict[str, Any], remote=None) -> OpRecord:
        rec = OpRecord(op, args)
        global _ops_run
        _ops_run += 1
        if _ops_run % 9 == 4:
            # the application was idle for a while before this operation: seconds, minutes, hours of real (monotonic) time
            idle(_IDLE_RNG.choice([1.5, 4, 11, 31, 61, 125, 305, 3700, 90000]))
        if _ops_run % 13 == 6:
            # the application changes the library's log level while objects are alive (a debug switch in its UI)
            import logging

            lg = logging.getLogger("aioswitcher")
            lg.setLevel(logging.WARNING if lg.getEffectiveLevel() <= logging.DEBUG else logging.DEBUG)
            if not lg.handlers:
                lg.addHandler(logging.NullHandler())
                lg.propagate = False
        mark = self.spy.mark()
        global _hangs_seen
        # the first two hangs of a worker get the full, generous wait; once they are on record the rest only need to be skipped quickly
        limit = OP_TIMEOUT_S if _hangs_seen < 2 else 1.0
        if SHARED_CONTEXT is not None:
            # the application runs all its tasks in one contextvars.Context (a task factory, TaskGroup.create_task(context=...))
            task = asyncio.get_running_loop().create_task(ops.call(self.api, op, args, remote), context=SHARED_CONTEXT)
        else:
            task = asyncio.ensure_future(ops.call(self.api, op, args, remote))
        t0, spins = REAL_MONOTONIC(), 0
        while not task.done():
            # a watchdog on the real clock (the event loop's clock may be warped by virtual reply delays)
            spins += 1
            await asyncio.sleep(0 if spins < 300 else 0.002)
            if REAL_MONOTONIC() - t0 > limit:
                break
        try:
            if task.done():
                rec.value = task.result()
                rec.outcome = "return"
            else:
                task.cancel()
                try:
                    await task
                except BaseException:
                    pass
                _hangs_seen += 1
                rec.outcome = "raise"
                rec.exc = OperationHung(f"{op} did not finish within {limit:.0f} s of a flushed reply")
        except asyncio.CancelledError:
            raise
        except BaseException as exc:  # the oracle judges the type
            rec.outcome = "raise"
            rec.exc = exc
        rec.writes = self.spy.since(mark)
        return rec

    async def close(self):
        try:
            await self.api.disconnect()
        except Exception:
            pass


class Rig:
    def __init__(self, shard: int):
        self.shard = shard
        self._ips = itertools.count(1)
        self.devices: List[td.FakeDevice] = []

    def next_ip(self) -> str:
        n = next(self._ips)
        return f"127.{16 + self.shard % 200}.{(n >> 8) & 255}.{n & 255 or 1}"

    async def device(self) -> td.FakeDevice:
        dev = td.FakeDevice(self.next_ip())
        seen = {"n": 0}

        def lag(conn, idx, frame):
            # every 23rd reply is slow: a second or two, ten seconds, a minute (healthy devices on a bad network)
            seen["n"] += 1
            return (1.2, 2.5, 6, 12, 25, 70)[(seen["n"] // 23) % 6] if seen["n"] % 23 == 7 else 0

        dev.lag = lag
        await dev.start()
        self.devices.append(dev)
        return dev

    async def connect(self, dev: td.FakeDevice, api_type: int, device_id: str, key: str) -> Client:
        import aioswitcher.api as api_mod

        cls = api_mod.SwitcherType1Api if api_type == 1 else api_mod.SwitcherType2Api
        api = cls(dev.ip, device_id, key)
        from . import tour

        tour.note_device(device_id, key, api_type)
        before = len(dev.conns)
        await api.connect()
        # the accept callback runs on the next loop cycles
        for _ in range(200):
            if len(dev.conns) > before:
                break
            await asyncio.sleep(0)
        else:
            await asyncio.sleep(0.05)
        conn = dev.conns[-1]
        return Client(api, td.WireSpy(api), conn, dev)

    async def close(self):
        for d in self.devices:
            await d.stop()
        self.devices = []


def make_remote(irset: Dict[str, Any]):
    from aioswitcher.api.remotes import SwitcherBreezeRemote

    return SwitcherBreezeRemote(irset)
