"""Oracle self-test: ties the reference side to the ground truth shipped with the
repository (signed literals and real captures).  A failure here makes a check
inconclusive (the oracle is broken), never a violation."""

import sys
from pathlib import Path

from . import env
from .ref import broadcast, clock, crc, frames, replies

TS = 0x5CB38DEF  # "ef8db35c"
SESSION = bytes.fromhex("01000000")
DEV = bytes.fromhex("a123bc")
KEY = bytes.fromhex("18")

SIGNED_LITERALS = [
    ("login", {}, "6ddd0cc0"),
    ("get_state", {}, "42a9a1b2"),
    ("control", {"on": True, "timer_s": 0}, "cc06bb10"),
    ("control", {"on": False, "timer_s": 0}, "6c432cf4"),
    ("control", {"on": True, "timer_s": 5400}, "3b30141e"),
    ("set_auto_shutdown", {"seconds": 5400}, "3bb1ca55"),
    ("set_name", {"name": "my device cool name"}, "1039bc0e"),
    ("get_schedules", {}, "0efde536"),
]


def crc_and_frames() -> None:
    for data in (b"", b"\x00", b"123456789", bytes(range(256)) * 3):
        if crc.crc16_ccitt(data) != crc.crc16_fast(data):
            raise RuntimeError("bitwise and table CRC disagree")
    for kind, args, sig in SIGNED_LITERALS:
        f = frames.build(kind, SESSION, TS, DEV, KEY, args)
        if f[-4:].hex() != sig:
            raise RuntimeError(f"reference frame {kind}{args} signs to {f[-4:].hex()}, literal says {sig}")
        if frames.generic_check(f):
            raise RuntimeError(f"reference frame {kind} fails its own generic check")
        if frames.classify(f) != kind:
            raise RuntimeError(f"classifier names {kind} as {frames.classify(f)}")


def _res(rel: str) -> bytes:
    p = env.REPO / "tests" / "testresources" / rel
    return bytes.fromhex(p.read_text().replace("\n", "").strip())


def broadcast_captures() -> None:
    base = "test_udp_datagram_parsing/test_datagram_state_{}_{}.txt"
    models = {"mini": "MINI", "power_plug": "POWER_PLUG", "touch": "TOUCH",
              "v2_esp": "V2_ESP", "v2_qca": "V2_QCA", "v4": "V4"}
    n = 0
    for st in ("on", "off"):
        for suffix, model in models.items():
            cap = _res(base.format(st, suffix))
            d = broadcast.decode(cap)
            want = {"model": model, "ip": "192.168.1.33", "mac": "12:A1:A2:1A:BC:1A",
                    "name": "My Switcher Boiler", "device_id": "aaaaaa", "state": st.upper()}
            if st == "on":
                want["power"] = 2600
            for k, v in want.items():
                if d[k] != v:
                    raise RuntimeError(f"capture {suffix}/{st}: reference decodes {k}={d[k]!r}, tests assert {v!r}")
            if model != "POWER_PLUG":
                if st == "on" and d["remaining"] != 5400:
                    raise RuntimeError("capture remaining != 01:30:00")
                if d["auto_shutdown"] != 10800:
                    raise RuntimeError("capture auto shutdown != 03:00:00")
            if broadcast.encode(d, filler=cap) != cap:
                raise RuntimeError(f"encode(decode(capture {suffix}/{st})) does not overlay back")
            n += 1
    for rel in ("test_device_parsing/test_a_breeze_datagram_produces_device.txt",
                "test_device_parsing/test_a_runner_datagram_produces_device.txt",
                "test_device_parsing/test_a_water_heater_datagram_produces_device.txt",
                "test_device_parsing/test_a_power_plug_datagram_produces_device.txt",
                "test_bridge/test_bridge_callback_loading_power_plug_off.txt",
                "test_bridge/test_bridge_callback_loading_v2_off.txt"):
        cap = _res(rel)
        if not broadcast.gate(cap):
            raise RuntimeError(f"{rel} fails the reference gate")
        d = broadcast.decode(cap)
        if broadcast.encode(d, filler=cap) != cap:
            raise RuntimeError(f"encode(decode({rel})) does not overlay back")
        n += 1
    b = broadcast.decode(_res("test_device_parsing/test_a_breeze_datagram_produces_device.txt"))
    # the device's own name carries the last two MAC bytes: Switcher Breeze_5679
    if not (b["name"].endswith("5679") and b["mac"].endswith("56:79") and b["remote_id"] == "ELEC7022"
            and b["temp_tenths"] == 281):
        raise RuntimeError(f"breeze capture decodes unexpectedly: {b}")
    r = broadcast.decode(_res("test_device_parsing/test_a_runner_datagram_produces_device.txt"))
    if not (r["name"].endswith("1E42") and r["mac"].endswith("1E:42")):
        raise RuntimeError(f"runner capture decodes unexpectedly: {r}")
    for rel in ("test_udp_datagram_parsing/test_a_faulty_datagram_too_short.txt",
                "test_udp_datagram_parsing/test_a_faulty_datagram_wrong_start.txt"):
        if broadcast.gate(_res(rel)):
            raise RuntimeError(f"{rel} passes the reference gate")


def reply_captures() -> None:
    br = _res("dummy_responses/get_breeze_state.txt")
    if replies.BREEZE_T != br or br[84:92] != b"ELEC7022" or int.from_bytes(br[76:78], "little") != 281:
        raise RuntimeError("thermostat reply template does not match the capture")
    sh = _res("dummy_responses/get_shutter_state_response.txt")
    if replies.SHUTTER_T != sh:
        raise RuntimeError("shutter reply template does not match the capture")
    st = _res("dummy_responses/get_state_response.txt")
    # real reply: auto shutdown 03:00:00 at 97-100
    if len(st) != replies.STATE1_LEN or int.from_bytes(st[97:101], "little") != 10800:
        raise RuntimeError("type-1 state reply layout does not match the capture")
    off = _res("test_api_messages/test_the_state_message_parser_device_off.txt")
    if off[75] != 0 or int.from_bytes(off[97:101], "little") != 5400:
        raise RuntimeError("type-1 state reply (off) layout does not match the capture")
    lg = _res("test_api_messages/test_switcher_login_response_dataclass.txt")
    if lg[8:12].hex() != "f050834e":
        raise RuntimeError("login reply session offset does not match the capture")
    sc = _res("test_schedule_parser/test_get_schedules_with_a_two_schedules_packet.txt")
    if (len(sc) - 45 - 4) != 32 or sc[45] != 0 or sc[47] != 0xFC or sc[61] != 1 or sc[63] != 2:
        raise RuntimeError("get-schedules reply layout does not match the capture")


def all_() -> None:
    crc_and_frames()
    broadcast_captures()
    reply_captures()
    clock.selftest()


if __name__ == "__main__":
    env.setup_sys_path()
    try:
        all_()
    except Exception as exc:
        print(f"oracle self-test FAILED: {exc}", file=sys.stderr)
        sys.exit(1)
    print("oracle self-test ok")
