"""Reference layout of the request frames, written from the wire format.

Byte-oriented (struct / bytes); never uses the repository's hex templates or
helpers.  `build(kind, ...)` returns the full signed frame, `decode(frame)`
names the fields for diagnostics, `diff(a, b)` names the fields that differ.

Common header (40 bytes):
   0-1   fe f0                magic
   2-3   total length, LE16   (header + body + 4 signature bytes)
   4-5   protocol word        02 32 (type 1) / 03 05 (type 2)
   6-7   operation class      a1 00 login, a6 00 login2, 01 03 state query,
                              01 02 command, 02 02 set name, 01 0e status update
   8-11  session id           (zero in login frames)
  12-23  request word         per operation, see REQ_*
  24-27  timestamp, LE32
  28-37  zero
  38-39  f0 fe                header terminator
"""

import struct
from typing import Any, Dict, List, Tuple

from .crc import sign

MAGIC = b"\xfe\xf0"
TERM = b"\xf0\xfe"
PAD36 = bytes(36)

REQ_T1 = bytes.fromhex("340001000000000000000000")
REQ_T2 = bytes.fromhex("390001000000000000000000")
REQ_BREEZE = bytes.fromhex("000001000000000000000000")
REQ_LOGIN2 = bytes.fromhex("ff0301000000000000000000")
REQ_STOP = bytes.fromhex("232301000000000000000000")
REQ_POS = bytes.fromhex("290401000000000000000000")

P1 = b"\x02\x32"
P2 = b"\x03\x05"

# kind -> (protocol word, op class, request word, uses session)
KINDS = {
    "login": (P1, b"\xa1\x00", REQ_T1),
    "login2": (P2, b"\xa6\x00", REQ_LOGIN2),
    "get_state": (P1, b"\x01\x03", REQ_T1),
    "get_state2": (P2, b"\x01\x03", REQ_T2),
    "control": (P1, b"\x01\x02", REQ_T1),
    "set_auto_shutdown": (P1, b"\x01\x02", REQ_T1),
    "set_name": (P1, b"\x02\x02", REQ_T1),
    "get_schedules": (P1, b"\x01\x02", REQ_T1),
    "delete_schedule": (P1, b"\x01\x02", REQ_T1),
    "create_schedule": (P1, b"\x01\x02", REQ_T1),
    "breeze_command": (P2, b"\x01\x02", REQ_BREEZE),
    "breeze_update": (P2, b"\x01\x0e", REQ_BREEZE),
    "stop": (P2, b"\x01\x02", REQ_STOP),
    "set_position": (P2, b"\x01\x02", REQ_POS),
}


def _header(kind: str, session: bytes, ts: int, total_len: int) -> bytes:
    proto, opclass, req = KINDS[kind]
    return (
        MAGIC
        + struct.pack("<H", total_len)
        + proto
        + opclass
        + session
        + req
        + struct.pack("<I", ts)
        + bytes(10)
        + TERM
    )


def body(kind: str, device_id: bytes, key: bytes, args: Dict[str, Any]) -> bytes:
    """Bytes after the 40-byte header, before the signature."""
    if kind == "login":
        return key + PAD36 + b"\x00"
    if kind in ("login2", "get_state", "get_state2"):
        return device_id + b"\x00"
    pre = device_id + PAD36
    if kind == "control":
        return pre + b"\x00\x01\x06\x00" + bytes([1 if args["on"] else 0]) + b"\x00" + struct.pack("<I", args["timer_s"])
    if kind == "set_auto_shutdown":
        return pre + b"\x00\x04\x04\x00" + struct.pack("<I", args["seconds"])
    if kind == "set_name":
        raw = args["name"].encode("utf-8")
        return pre + b"\x00" + raw + bytes(32 - len(raw))
    if kind == "get_schedules":
        return pre + b"\x00\x06\x00\x00"
    if kind == "delete_schedule":
        return pre + b"\x00\x08\x01\x00" + bytes([args["slot"]])
    if kind == "create_schedule":
        rec = b"\xff\x01" + bytes([args["mask"]]) + b"\x01" + struct.pack("<II", args["start"], args["end"])
        return pre + b"\x00\x03" + struct.pack("<H", len(rec)) + rec
    if kind == "breeze_command":
        payload = args["payload"]  # 4 zero bytes + ascii text
        return pre + b"\x37\x01" + struct.pack("<H", len(payload)) + payload
    if kind == "breeze_update":
        return (
            pre
            + b"\x37\x01\x00\x03\x0b\x04\x00"
            + bytes([args["state"], args["mode"], args["target"], (args["fan"] << 4) | args["swing"]])
        )
    if kind == "stop":
        return pre + b"\x37\x02\x02\x00\x00\x00"
    if kind == "set_position":
        return pre + b"\x37\x01\x01\x00" + bytes([args["position"]])
    raise KeyError(kind)


def build(kind: str, session: bytes, ts: int, device_id: bytes, key: bytes, args: Dict[str, Any] = None) -> bytes:
    b = body(kind, device_id, key, args or {})
    total = 40 + len(b) + 4
    if kind in ("login", "login2"):
        session = bytes(4)
    unsigned = _header(kind, session, ts, total) + b
    return unsigned + sign(unsigned)


# ---------------------------------------------------------------- decoding


def generic_check(frame: bytes) -> List[str]:
    """C01's oracle: self-consistency of any frame, no knowledge of the operation."""
    problems = []
    if len(frame) < 44:
        return [f"frame of {len(frame)} bytes is shorter than header+signature"]
    if frame[0:2] != MAGIC:
        problems.append(f"magic is {frame[0:2].hex()} not fef0")
    declared = int.from_bytes(frame[2:4], "little")
    if declared != len(frame):
        problems.append(f"length field says {declared} (bytes {frame[2:4].hex()}), frame has {len(frame)} bytes")
    if frame[38:40] != TERM:
        problems.append(f"bytes 38-39 are {frame[38:40].hex()} not f0fe")
    if frame[-4:] != sign(frame[:-4]):
        problems.append(f"signature {frame[-4:].hex()} != expected {sign(frame[:-4]).hex()}")
    return problems


def classify(frame: bytes) -> str:
    """Name the kind of a frame from its fixed words (best effort, for logs)."""
    if len(frame) < 44:
        return "short"
    proto, opc, req = frame[4:6], frame[6:8], frame[12:24]
    tail = frame[43:-4]
    if opc == b"\xa1\x00":
        return "login"
    if opc == b"\xa6\x00":
        return "login2"
    if opc == b"\x01\x03":
        return "get_state" if proto == P1 else "get_state2"
    if opc == b"\x02\x02":
        return "set_name"
    if opc == b"\x01\x0e":
        return "breeze_update"
    if opc == b"\x01\x02":
        if proto == P1:
            code = tail[36:38] if len(tail) >= 38 else b""
            return {
                b"\x00\x01": "control",
                b"\x00\x04": "set_auto_shutdown",
                b"\x00\x06": "get_schedules",
                b"\x00\x08": "delete_schedule",
                b"\x00\x03": "create_schedule",
            }.get(code, "command?")
        if req == REQ_STOP:
            return "stop"
        if req == REQ_POS:
            return "set_position"
        if req == REQ_BREEZE:
            return "breeze_command"
    return "unknown"


def fields(frame: bytes) -> Dict[str, Any]:
    """Header fields by name."""
    return {
        "len": int.from_bytes(frame[2:4], "little"),
        "proto": frame[4:6].hex(),
        "opclass": frame[6:8].hex(),
        "session": frame[8:12].hex(),
        "request": frame[12:24].hex(),
        "ts": int.from_bytes(frame[24:28], "little"),
        "zeros": frame[28:38].hex(),
        "device_id_or_key": frame[40:43].hex(),
        "kind": classify(frame),
    }


_REGIONS: List[Tuple[int, int, str]] = [
    (0, 2, "magic"), (2, 4, "length"), (4, 6, "protocol word"), (6, 8, "operation class"),
    (8, 12, "session id"), (12, 24, "request word"), (24, 28, "timestamp"),
    (28, 38, "header padding"), (38, 40, "terminator"), (40, 43, "device id / key"),
    (43, 79, "padding after device id"),
]


def diff(got: bytes, want: bytes) -> List[str]:
    """Human-readable list of differing regions."""
    out = []
    if len(got) != len(want):
        out.append(f"length {len(got)} != expected {len(want)}")
    n = min(len(got), len(want))
    bad = [i for i in range(n) if got[i] != want[i]]
    named = set()
    for i in bad:
        name = None
        for lo, hi, nm in _REGIONS:
            if lo <= i < hi:
                name = nm
                break
        if name is None:
            name = "signature" if i >= n - 4 else f"body byte {i}"
        if name not in named:
            named.add(name)
            out.append(f"{name} differs at byte {i}: got {got[i]:02x} want {want[i]:02x}")
    return out[:8]
