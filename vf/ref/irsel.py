"""Executable model of "the stored IR code that best matches the request" (C15/C16)
and of the capability summary of an IR set."""

import struct
from typing import Any, Dict, Optional, Tuple

MODE_PREFIX = {"AUTO": "aa", "DRY": "ad", "FAN": "aw", "COOL": "ar", "HEAT": "ah"}
PREFIX_MODE = {v: k for k, v in MODE_PREFIX.items()}
FAN_SUFFIX = {"AUTO": "_f0", "LOW": "_f1", "MEDIUM": "_f2", "HIGH": "_f3"}
SEPARATE_SWING_IDS = {"ELEC7022", "ZM079055", "ZM079065", "ZM079049"}
MODE_DISPLAY = {"AUTO": "auto", "DRY": "dry", "FAN": "fan", "COOL": "cool", "HEAT": "heat"}


def capabilities(irset: Dict[str, Any]) -> Dict[str, Any]:
    keys = [w["Key"] for w in irset["IRWaveList"]]
    modes = []
    temps = []
    for k in keys:
        m = PREFIX_MODE.get(k[0:2])
        if m and m not in modes:
            modes.append(m)
        if m in ("COOL", "HEAT") and k[2:4].isdigit():
            temps.append(int(k[2:4]))
    return {
        "modes": modes,
        "min": min(temps) if temps else None,
        "max": max(temps) if temps else None,
        "toggle": irset["OnOffType"] == 1,
        "separate_swing": irset["IRSetID"] in SEPARATE_SWING_IDS,
    }


def select(irset: Dict[str, Any], state: str, mode: str, target: int, fan: str, swing: str,
           previous: Optional[str]) -> Tuple[str, Any]:
    """-> ('key', key) | ('reject_mode', [supported modes]) | ('unspecified', why)."""
    caps = capabilities(irset)
    keys = {w["Key"] for w in irset["IRWaveList"]}
    if mode not in caps["modes"]:
        return ("reject_mode", caps["modes"])   # "an unsupported mode is refused" holds whatever else was asked
    if not caps["toggle"] and state == "OFF":
        if "off" in keys:
            return ("key", "off")
        return ("unspecified", "set has no plain off code")
    prefix = "on_" if (caps["toggle"] and previous is not None and previous != state) else ""
    base = prefix + MODE_PREFIX[mode]
    if mode in ("COOL", "HEAT"):
        if caps["min"] is None:
            return ("unspecified", "set has no temperature keys")
        base += str(max(caps["min"], min(caps["max"], target)))
    cands = []
    if swing == "ON":
        cands.append(base + FAN_SUFFIX[fan] + "_d1")
    cands.append(base + FAN_SUFFIX[fan])
    cands.append(base)
    for c in cands:
        if c in keys:
            return ("key", c)
    return ("unspecified", "none of the candidate keys exists in the set")


def payload_of(irset: Dict[str, Any], key: str) -> bytes:
    for w in irset["IRWaveList"]:
        if w["Key"] == key:
            return bytes(4) + (w["Para"] + "|" + w["HexCode"]).encode("ascii")
    raise KeyError(key)


def length_field(payload: bytes) -> str:
    """The hex text of the little-endian 16-bit byte length."""
    return struct.pack("<H", len(payload)).hex()
