"""Reference layout of the three status-broadcast families (165 / 168 / 159 bytes).

encode(desc) -> bytes, decode(bytes) -> desc.  Written from the wire layout;
the self-test ties it to every capture shipped in tests/testresources.

Offsets (bytes):
  common   0-1 magic fe f0 · 2-3 length LE16 · 18-20 device id · 38-39 f0 fe
           40 login key · 42-73 name (UTF-8, zero padded) · 74-75 model code
  type 1   76-79 IPv4 · 80-85 MAC · 133 state · 135-136 watts LE16
  (165)    147-150 remaining s LE32 · 155-158 auto-shutdown s LE32
  type 2   76 pad · 77-80 IPv4 · 81-86 MAC
  runner   135 position · 136 zero · 137-138 direction (00 00 / 01 00 / 00 01)
  (159)
  breeze   135-136 temperature tenths LE16 · 137 state · 138 mode · 139 target
  (168)    140 fan (high nibble) | swing (low nibble) · 143-150 remote id (8 ASCII)
"""

import struct
from typing import Any, Dict

MODELS = {
    "MINI": ("030f", 1, "WATER_HEATER"),
    "POWER_PLUG": ("01a8", 1, "POWER_PLUG"),
    "TOUCH": ("030b", 1, "WATER_HEATER"),
    "V2_ESP": ("01a7", 1, "WATER_HEATER"),
    "V2_QCA": ("01a1", 1, "WATER_HEATER"),
    "V4": ("0317", 1, "WATER_HEATER"),
    "BREEZE": ("0e01", 2, "THERMOSTAT"),
    "RUNNER": ("0c01", 2, "SHUTTER"),
    "RUNNER_MINI": ("0c02", 2, "SHUTTER"),
}
CODE_TO_MODEL = {bytes.fromhex(v[0]): k for k, v in MODELS.items()}
LENGTHS = {"WATER_HEATER": 165, "POWER_PLUG": 165, "THERMOSTAT": 168, "SHUTTER": 159}
DIRECTIONS = {"STOP": b"\x00\x00", "UP": b"\x01\x00", "DOWN": b"\x00\x01"}
DIR_BY_CODE = {v: k for k, v in DIRECTIONS.items()}
MODES = {"AUTO": 1, "DRY": 2, "FAN": 3, "COOL": 4, "HEAT": 5}
MODE_BY_CODE = {v: k for k, v in MODES.items()}
FANS = {"AUTO": 0, "LOW": 1, "MEDIUM": 2, "HIGH": 3}
FAN_BY_CODE = {v: k for k, v in FANS.items()}

# canonical filler, transcribed from one real capture of each family (non-field
# bytes only matter as "what real devices send around the fields")
_T1 = bytes.fromhex(
    "fef0a500023c020000000000841201000000aaaaaa0000007ff6c26000000000000000000000f0fe"
    "03004d7920537769746368657220426f696c6572000000000000000000000000000001a7c0a80121"
    "12a1a21abc1a000000000000000002537769746368657220426f696c657220434638420000000000"
    "00000000000000020400001c000100280a00004b9589c0000000001815000000000000302a000001"
    "02aa3461dd"
)
_BREEZE = bytes.fromhex(
    "fef0a800040002000000000050e0010000003a20b70000009b62966200000000000000000000f0fe"
    "0800537769746368657220427265657a655f353637390000000000000000000000000e0100c0a832"
    "4dbcff4d4a567900000700000000030253776974636865725f427265657a655f3536373900000000"
    "0000000000000000020400001e00011901000218000007454c454337303232000000002800000000"
    "00000002433ded03"
)
_RUNNER = bytes.fromhex(
    "fef09f000402020000000000120701000000f2239a0000006485966200000000000000000000f0fe"
    "060053776974636865722052756e5f314534320000000000000000000000000000000c0200c0a832"
    "6294b97e011e4202020000010000030253776974636865722052756e5f3145343200000000000000"
    "0000000000000000020400001500041800000001010000000000000000000000000000ad6b23b9"
)
TEMPLATES = {165: _T1, 168: _BREEZE, 159: _RUNNER}
assert len(_T1) == 165 and len(_BREEZE) == 168 and len(_RUNNER) == 159, (len(_T1), len(_BREEZE), len(_RUNNER))


def field_bytes(model: str) -> set:
    """Byte positions that carry a field (or frame structure) for this model."""
    _, proto, cat = MODELS[model]
    pos = set(range(0, 4)) | set(range(18, 21)) | {38, 39, 40} | set(range(42, 76))
    if proto == 1:
        pos |= set(range(76, 86)) | {133, 135, 136}
        if cat == "WATER_HEATER":
            pos |= set(range(147, 151)) | set(range(155, 159))
    else:
        pos |= set(range(76, 87))
        if cat == "SHUTTER":
            pos |= {135, 136, 137, 138}
        else:
            pos |= set(range(135, 141)) | set(range(143, 151))
    return pos


def encode(d: Dict[str, Any], filler: bytes = None) -> bytes:
    """Encode a device description.  `filler` replaces the canonical non-field bytes."""
    model = d["model"]
    code, proto, cat = MODELS[model]
    n = LENGTHS[cat]
    buf = bytearray(TEMPLATES[n])
    if filler is not None:
        fb = field_bytes(model)
        for i in range(n):
            if i not in fb:
                buf[i] = filler[i]
    buf[0:2] = b"\xfe\xf0"
    buf[2:4] = struct.pack("<H", n)
    buf[18:21] = bytes.fromhex(d["device_id"])
    buf[38:40] = b"\xf0\xfe"
    if "clock" in d:
        buf[24:28] = struct.pack("<I", d["clock"])      # the device's clock reading: part of the header, not of what the callback gets
    buf[40] = int(d["device_key"], 16)
    raw = d["name"].encode("utf-8")
    assert 1 <= len(raw) <= 32
    buf[42:74] = raw + bytes(32 - len(raw))
    buf[74:76] = bytes.fromhex(d.get("model_code", code))
    ip = bytes(int(x) for x in d["ip"].split("."))
    mac = bytes(int(x, 16) for x in d["mac"].split(":"))
    if proto == 1:
        buf[76:80] = ip
        buf[80:86] = mac
        buf[133] = 1 if d["state"] == "ON" else d.get("state_code", 0)
        buf[135:137] = struct.pack("<H", d["power"])
        if cat == "WATER_HEATER":
            buf[147:151] = struct.pack("<I", d["remaining"])
            buf[155:159] = struct.pack("<I", d["auto_shutdown"])
    else:
        buf[76] = 0
        buf[77:81] = ip
        buf[81:87] = mac
        if cat == "SHUTTER":
            buf[135] = d["position"]
            buf[136] = 0
            buf[137:139] = DIRECTIONS[d["direction"]]
        else:
            buf[135:137] = struct.pack("<H", d["temp_tenths"])
            buf[137] = 1 if d["state"] == "ON" else d.get("state_code", 0)
            buf[138] = MODES[d["mode"]]
            buf[139] = d["target"]
            buf[140] = (FANS[d["fan"]] << 4) | (1 if d["swing"] == "ON" else 0)
            buf[143:151] = d["remote_id"].encode("ascii")
    return bytes(buf)


def gate(b: bytes) -> bool:
    return b[0:2] == b"\xfe\xf0" and len(b) in (165, 168, 159)


def decode(b: bytes) -> Dict[str, Any]:
    """Decode a gate-passing frame of a known model under the reference layout."""
    model = CODE_TO_MODEL[b[74:76]]
    code, proto, cat = MODELS[model]
    d: Dict[str, Any] = {
        "model": model,
        "device_id": b[18:21].hex(),
        "device_key": b[40:41].hex(),
        "name": b[42:74].rstrip(b"\x00").decode("utf-8"),
    }
    if proto == 1:
        d["ip"] = ".".join(str(x) for x in b[76:80])
        d["mac"] = ":".join(f"{x:02X}" for x in b[80:86])
        d["state"] = "ON" if b[133] == 1 else "OFF"
        d["power"] = struct.unpack("<H", b[135:137])[0]
        if cat == "WATER_HEATER":
            d["remaining"] = struct.unpack("<I", b[147:151])[0]
            d["auto_shutdown"] = struct.unpack("<I", b[155:159])[0]
    else:
        d["ip"] = ".".join(str(x) for x in b[77:81])
        d["mac"] = ":".join(f"{x:02X}" for x in b[81:87])
        if cat == "SHUTTER":
            d["position"] = b[135]
            d["direction"] = DIR_BY_CODE[bytes(b[137:139])]
        else:
            d["temp_tenths"] = struct.unpack("<H", b[135:137])[0]
            d["state"] = "ON" if b[137] == 1 else "OFF"
            d["mode"] = MODE_BY_CODE[b[138]]
            d["target"] = b[139]
            d["fan"] = FAN_BY_CODE[b[140] >> 4]
            d["swing"] = "ON" if (b[140] & 0x0F) != 0 else "OFF"
            d["remote_id"] = b[143:151].decode("ascii")
    return d


def hms(seconds: int) -> str:
    return f"{seconds // 3600:02d}:{seconds // 60 % 60:02d}:{seconds % 60:02d}"


def amps_ok(watts: int, amps: float) -> bool:
    """One decimal, within 0.05 (+ float slack) of watts/220; tie rounding unspecified."""
    if round(amps, 1) != amps:
        return False
    return abs(amps - watts / 220) <= 0.05 + 1e-9


def expected_device(d: Dict[str, Any]) -> Dict[str, Any]:
    """What the callback's device object must report for description d."""
    model = d["model"]
    _, proto, cat = MODELS[model]
    e: Dict[str, Any] = {
        "class": {"WATER_HEATER": "SwitcherWaterHeater", "POWER_PLUG": "SwitcherPowerPlug",
                  "THERMOSTAT": "SwitcherThermostat", "SHUTTER": "SwitcherShutter"}[cat],
        "device_type": model,
        "device_id": d["device_id"],
        "device_key": d["device_key"],
        "ip_address": d["ip"],
        "mac_address": d["mac"],
        "name": d["name"],
    }
    if cat != "SHUTTER":
        e["device_state"] = d["state"]
    if proto == 1:
        on = d["state"] == "ON"
        e["power_consumption"] = d["power"] if on else 0
        e["electric_current"] = ("amps_of", d["power"]) if on else 0.0
        if cat == "WATER_HEATER":
            e["remaining_time"] = hms(d["remaining"]) if on else "00:00:00"
            e["auto_shutdown"] = hms(d["auto_shutdown"])
    elif cat == "SHUTTER":
        e["position"] = d["position"]
        e["direction"] = "SHUTTER_" + d["direction"]
    else:
        e["mode"] = d["mode"]
        e["temperature"] = d["temp_tenths"] / 10
        e["target_temperature"] = d["target"]
        e["fan_level"] = d["fan"]
        e["swing"] = d["swing"]
        e["remote_id"] = d["remote_id"]
    return e


def compare_device(dev: Any, d: Dict[str, Any]):
    """List of (field, got, want) mismatches between a delivered device and d."""
    e = expected_device(d)
    bad = []
    if type(dev).__name__ != e["class"]:
        bad.append(("class", type(dev).__name__, e["class"]))
    for k, want in e.items():
        if k == "class":
            continue
        got = getattr(dev, k, "<missing>")
        if hasattr(got, "name") and not isinstance(got, str):
            got = got.name  # enum member -> its name
        if isinstance(want, tuple) and want[0] == "amps_of":
            if not (isinstance(got, float) and amps_ok(want[1], got)):
                bad.append((k, got, f"{want[1]}W/220 to one decimal"))
        elif got != want or type(got) is not type(want):
            bad.append((k, got, want))
    return bad
