"""Reference local-time arithmetic with zoneinfo + datetime only
(no time.mktime / time.localtime), plus the harness' virtual clock + zone switch."""

import os
import time
from contextlib import contextmanager
from datetime import date, datetime, timedelta, timezone
from typing import List, Set, Tuple
from zoneinfo import ZoneInfo

WEEKDAYS = ["Monday", "Tuesday", "Wednesday", "Thursday", "Friday", "Saturday", "Sunday"]


def local(zone: str, epoch: float) -> datetime:
    return datetime.fromtimestamp(epoch, ZoneInfo(zone))


def epochs_of(zone: str, d: date, hh: int, mm: int) -> List[int]:
    """All epoch seconds whose local time in `zone` is d hh:mm:00 (0, 1 or 2 values)."""
    tz = ZoneInfo(zone)
    out = []
    for fold in (0, 1):
        dt = datetime(d.year, d.month, d.day, hh, mm, tzinfo=tz, fold=fold)
        ts = int(dt.timestamp())
        back = datetime.fromtimestamp(ts, tz)
        if (back.year, back.month, back.day, back.hour, back.minute) == (d.year, d.month, d.day, hh, mm):
            if ts not in out:
                out.append(ts)
    return out


_ABBR = {}


def abbreviations(zone: str) -> tuple:
    """The (standard, daylight) abbreviation pair of a zone around 2026, as time.tzname would show it."""
    if zone not in _ABBR:
        tz = ZoneInfo(zone)
        names = {}
        for month in range(1, 13):
            dt = datetime(2026, month, 15, 12, tzinfo=tz)
            names[bool(dt.dst())] = dt.tzname()
        std = names.get(False) or names.get(True)
        _ABBR[zone] = (std, names.get(True, std))
    return _ABBR[zone]


_STD = {}


def _standard_offset(zone: str):
    """The zone's standard (non-DST) UTC offset around 2026 - what time.timezone shows."""
    if zone not in _STD:
        tz = ZoneInfo(zone)
        offs = [datetime(2026, m, 15, 12, tzinfo=tz) for m in (1, 7)]
        std = [d.utcoffset() for d in offs if not d.dst()] or [min(d.utcoffset() for d in offs)]
        _STD[zone] = std[0]
    return _STD[zone]


# twins: the same abbreviations, the same standard and summer offsets today (time.tzname / timezone / altzone are identical), but
# another history - instants at which the two disagreed
TWINS = {"America/New_York": ("America/Indiana/Indianapolis", [962_625_600, 962_625_600 + 86_400 * 20 + 4_500, 1_090_000_000]),
         "Europe/Berlin": ("Europe/Paris", [268_142_400, 268_142_400 + 86_400 * 9 + 33_000, 300_000_000])}


def confusable(zone: str, epoch: float, zones) -> list:
    """Other zones that share this zone's UTC offset at `epoch` (but differ within a day of it), or share its abbreviation pair
    (but not its offset): what a cache keyed by 'the offset now' or by time.tzname cannot tell apart."""
    out = []
    off = local(zone, epoch).utcoffset()
    for z in zones:
        if z == zone:
            continue
        off_z = local(z, epoch).utcoffset()
        same_now = off_z == off
        differs_soon = any(local(z, epoch + k * 3600).utcoffset() != local(zone, epoch + k * 3600).utcoffset() for k in (-24, -12, -6, 6, 12, 24, 36))
        if (same_now and differs_soon) or (abbreviations(z) == abbreviations(zone) and not same_now) or (not same_now and _standard_offset(z) == _standard_offset(zone)):
            out.append(z)
    return out


def hhmm_of(zone: str, epoch: int) -> str:
    dt = local(zone, epoch)
    return f"{dt.hour:02d}:{dt.minute:02d}"


def transitions(zone: str, y0: int = 2023, y1: int = 2027) -> List[int]:
    """Epoch seconds at which the UTC offset of `zone` changes (hour resolution scan + bisection)."""
    tz = ZoneInfo(zone)
    out = []
    t = int(datetime(y0, 1, 1, tzinfo=timezone.utc).timestamp())
    end = int(datetime(y1, 1, 1, tzinfo=timezone.utc).timestamp())
    step = 6 * 3600
    prev = datetime.fromtimestamp(t, tz).utcoffset()
    while t < end:
        nxt = t + step
        off = datetime.fromtimestamp(nxt, tz).utcoffset()
        if off != prev:
            lo, hi = t, nxt
            while hi - lo > 1:
                mid = (lo + hi) // 2
                if datetime.fromtimestamp(mid, tz).utcoffset() == prev:
                    lo = mid
                else:
                    hi = mid
            out.append(hi)
            prev = off
        t = nxt
    return out


def next_run(today_weekday: int, now_minute: int, start_minute: int, days: Set[int]) -> Tuple[str, int]:
    """Earliest future occurrence: ('today'|'tomorrow'|'next', weekday index)."""
    if not days:
        return ("today", today_weekday)
    for delta in range(0, 8):
        wd = (today_weekday + delta) % 7
        if wd not in days:
            continue
        if delta == 0:
            if start_minute > now_minute:
                return ("today", wd)
            continue
        if delta == 1:
            return ("tomorrow", wd)
        return ("next", wd)
    raise AssertionError("unreachable")


def classify_text(text: str, start: str):
    """Token class of the library's display text -> ('today'|'tomorrow'|'next', weekday|None)."""
    if not text.endswith(f" at {start}"):
        return ("malformed", None)
    head = text[: -len(f" at {start}")]
    if head == "Due today":
        return ("today", None)
    if head == "Due tomorrow":
        return ("tomorrow", None)
    if head.startswith("Due next "):
        name = head[len("Due next "):]
        if name in WEEKDAYS:
            return ("next", WEEKDAYS.index(name))
    return ("malformed", None)


# ------------------------------------------------------------------ harness side


def set_zone(zone: str) -> None:
    os.environ["TZ"] = zone
    time.tzset()


@contextmanager
def virtual_time(epoch: float):
    """Freeze the wall clock at `epoch` (float destination keeps TZ/tzset in force)."""
    import time_machine

    with time_machine.travel(float(epoch), tick=False) as traveller:
        yield traveller


def selftest(samples: int = 4000) -> None:
    """zoneinfo and the C library must agree (same tzdata) outside the functions under test."""
    import random

    from ..env import ZONES

    rnd = random.Random(12345)
    saved = os.environ.get("TZ")
    try:
        for zone in ZONES:
            set_zone(zone)
            for _ in range(samples // len(ZONES)):
                ts = rnd.randrange(1_600_000_000, 1_900_000_000)
                lt = time.localtime(ts)
                dt = local(zone, ts)
                if (lt.tm_year, lt.tm_mon, lt.tm_mday, lt.tm_hour, lt.tm_min, lt.tm_wday) != (
                    dt.year, dt.month, dt.day, dt.hour, dt.minute, dt.weekday()):
                    raise RuntimeError(f"zoneinfo and libc disagree for {zone} at {ts}")
                if ts - ts % 60 not in epochs_of(zone, dt.date(), dt.hour, dt.minute):
                    raise RuntimeError(f"epochs_of does not invert local() for {zone} at {ts}")
    finally:
        if saved is None:
            os.environ.pop("TZ", None)
        else:
            os.environ["TZ"] = saved
        time.tzset()
