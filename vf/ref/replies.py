"""Reference encoders for the replies a device sends (lengths of real devices).

  login reply         44 bytes   session id at 8-11
  type-1 state       107 bytes   75 state · 77-78 watts LE16 · 89-92 time left LE32
                                 93-96 time on LE32 · 97-100 auto shutdown LE32
  shutter state      100 bytes   76 position · 78-79 direction
  thermostat state   109 bytes   76-77 temperature tenths LE16 · 78 state · 79 mode
                                 80 target · 81 fan(high nibble)|swing(low nibble)
                                 84-91 remote id (ASCII, zero padded)
  get-schedules       45-byte header + n x 16-byte records + 4 signature bytes
     record: id · enabled · day mask · state · start LE32 · end LE32 · 4 trailing bytes
  generic ack         any non-empty bytes
"""

import struct
from typing import Any, Dict, List

from .broadcast import DIRECTIONS, FANS, MODES
from .crc import sign

LOGIN_T = bytes.fromhex(
    "fef02c000400a60000000000ff03021100000000000000005d65966200000000000000000000f0fe1c8a48fa"
)
STATE1_LEN = 107
SHUTTER_T = bytes.fromhex(
    "fef0640004020103000000003900020000000000000000001489966200000000000000000000f0fe"
    "53776974636865722052756e5f314534320000000000000000000000000000000315000532000000"
    "01010000000000000000000000000000db4c3741"
)
BREEZE_T = bytes.fromhex(
    "fef06d000400010300000000390002000000000000000000c266966200000000000000000000f0fe"
    "537769746368657220427265657a655f35363739000000000000000000000000031e000119010002"
    "18000007454c45433730323200000000570000000000000002190044d5"
)
ACK_T = bytes.fromhex(
    "fef0300004000102000000000000020000000000000000008d6a966200000000000000000000f0fe01000000f5c7f750"
)
assert len(LOGIN_T) == 44 and len(SHUTTER_T) == 100 and len(BREEZE_T) == 109, (len(LOGIN_T), len(SHUTTER_T), len(BREEZE_T))


def _dress(buf: bytearray, d: Dict[str, Any]) -> None:
    """Optional header words every reply carries besides its fields: session id (8-11), device clock (24-27), name (40-71)."""
    if "hdr_session" in d:
        buf[8:12] = d["hdr_session"]
    if "hdr_clock" in d:
        buf[24:28] = d["hdr_clock"]
    if "hdr_name" in d and len(buf) >= 72:
        raw = d["hdr_name"].encode("utf-8")[:32]
        buf[40:72] = raw + bytes(32 - len(raw))


def _resign(buf: bytearray) -> bytes:
    buf[-4:] = sign(bytes(buf[:-4]))
    return bytes(buf)


def login(session: bytes) -> bytes:
    buf = bytearray(LOGIN_T)
    buf[8:12] = session
    return _resign(buf)


def state1(d: Dict[str, Any], filler: bytes = None) -> bytes:
    buf = bytearray(filler[:STATE1_LEN] if filler else bytes(STATE1_LEN))
    buf[0:2] = b"\xfe\xf0"
    buf[2:4] = struct.pack("<H", STATE1_LEN)
    buf[75] = 1 if d["state"] == "ON" else 0
    buf[77:79] = struct.pack("<H", d["power"])
    buf[89:93] = struct.pack("<I", d["time_left"])
    buf[93:97] = struct.pack("<I", d["time_on"])
    buf[97:101] = struct.pack("<I", d["auto_shutdown"])
    if filler is None and ("hdr_session" in d or "hdr_clock" in d):
        buf[38:40] = b"\xf0\xfe"
    _dress(buf, {k: v for k, v in d.items() if k in ("hdr_session", "hdr_clock")})
    return _resign(buf)


def shutter(d: Dict[str, Any]) -> bytes:
    buf = bytearray(SHUTTER_T)
    buf[76] = d["position"]
    buf[78:80] = DIRECTIONS[d["direction"]]
    _dress(buf, d)
    return _resign(buf)


def thermostat(d: Dict[str, Any]) -> bytes:
    buf = bytearray(BREEZE_T)
    buf[76:78] = struct.pack("<H", d["temp_tenths"])
    buf[78] = 1 if d["state"] == "ON" else 0
    buf[79] = MODES[d["mode"]]
    buf[80] = d["target"]
    buf[81] = (FANS[d["fan"]] << 4) | (1 if d["swing"] == "ON" else 0)
    rid = d["remote_id"].encode("ascii")
    buf[84:92] = rid + bytes(8 - len(rid))
    _dress(buf, d)
    return _resign(buf)


def schedule_record(slot: int, mask: int, start: int, end: int, enabled: int = 1, state: int = 1,
                    trailer: bytes = b"\xce\x0e\x00\x00") -> bytes:
    return bytes([slot, enabled, mask, state]) + struct.pack("<II", start, end) + trailer


def schedules(records: List[bytes], header: bytes = None) -> bytes:
    head = bytearray(header if header else bytes(45))
    assert len(head) == 45
    body = bytes(head) + b"".join(records)
    return body + sign(body)


def ack(n: int = 48) -> bytes:
    buf = bytearray(ACK_T if n == 48 else (ACK_T * (n // 48 + 1))[:n])
    return bytes(buf)
