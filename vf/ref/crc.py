"""Reference signing scheme, bit by bit (no binascii.crc_hqx, no hex strings)."""

KEY_PAD = bytes([0x30]) * 32


def crc16_ccitt(data: bytes, init: int = 0x1021) -> int:
    """CRC-16/CCITT, polynomial 0x1021, MSB first, explicit initial value."""
    reg = init & 0xFFFF
    for byte in data:
        reg ^= byte << 8
        for _ in range(8):
            if reg & 0x8000:
                reg = ((reg << 1) ^ 0x1021) & 0xFFFF
            else:
                reg = (reg << 1) & 0xFFFF
    return reg


# table-driven variant (checked against the bitwise one in the self-test); used
# where millions of signatures are needed
_TABLE = []
for _i in range(256):
    _r = _i << 8
    for _ in range(8):
        _r = ((_r << 1) ^ 0x1021) & 0xFFFF if _r & 0x8000 else (_r << 1) & 0xFFFF
    _TABLE.append(_r)


def crc16_fast(data: bytes, init: int = 0x1021) -> int:
    reg = init
    for byte in data:
        reg = ((reg << 8) & 0xFFFF) ^ _TABLE[(reg >> 8) ^ byte]
    return reg


def sign(payload: bytes, fast: bool = True) -> bytes:
    """The 4 signature bytes for `payload`."""
    f = crc16_fast if fast else crc16_ccitt
    first = f(payload).to_bytes(2, "little")
    second = f(first + KEY_PAD).to_bytes(2, "little")
    return first + second


def signed(payload: bytes) -> bytes:
    return payload + sign(payload)
