#!/bin/sh
# setup_cmd: offline install of the contract libraries next to the checks (git-ignored .deps)
here="$(cd "$(dirname "$0")" && pwd)"
cd "$here" || exit 1
if [ ! -d .deps/icontract ]; then
  PIP_NO_INDEX=1 /venv/bin/pip install --quiet --no-index --find-links /opt/veriftools/wheels \
      --target "$here/.deps" icontract deal || exit 1
fi
mkdir -p evidence replays .work
PYTHONPATH="$here" /venv/bin/python -B -m vf.selftest || exit 1
echo "setup ok"
