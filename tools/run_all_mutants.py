#!/venv/bin/python
"""Runs every mutant in tools/mutants against the checks expected to catch it (and checks that
the existing test-suite still passes with it).  Prints a table; exit 1 if an expected catch is missed."""
import json
import os
import re
import shutil
import subprocess
import sys
import tempfile
from concurrent.futures import ThreadPoolExecutor
from pathlib import Path

VERIF = Path(__file__).resolve().parent.parent
sys.path.insert(0, str(VERIF / "tools"))
from seed_verify import copy_repo, run_tests  # noqa

only = sys.argv[1:] 
index = json.loads((VERIF / "tools/mutants/INDEX.json").read_text())
base = Path(tempfile.mkdtemp(prefix="vf-muts-"))
clean = base / "clean"
copy_repo(clean)
p0, _, _ = run_tests(clean)


def one(item):
    name, props = item
    d = base / name
    copy_repo(d)
    r = subprocess.run(["patch", "-p1", "--no-backup-if-mismatch", "-d", str(d), "-i", str(VERIF / "tools/mutants" / f"{name}.diff")], capture_output=True, text=True)
    if r.returncode:
        return name, "PATCH-FAILED", {}, None
    p1, _, _ = run_tests(d)
    res = {}
    for c in props or []:
        e = dict(os.environ, VERIF_REPO=str(d), VERIF_EVIDENCE_DIR=str(d / "_ev"))
        cr = subprocess.run([str(VERIF / "check"), c, "--jobs", "4"], env=e, capture_output=True, text=True)
        res[c] = (cr.returncode, re.findall(r"mechanism=(\S+)", cr.stdout)[:3])
    shutil.rmtree(d, ignore_errors=True)
    return name, "tests-same" if p1 == p0 else f"tests-differ(-{len(p0 - p1)})", res, None


items = [(k, v) for k, v in index.items() if not only or any(o in k for o in only)]
missed = 0
with ThreadPoolExecutor(4) as ex:
    for name, tests, res, _ in ex.map(one, items):
        caught = [c for c, (rc, _) in res.items() if rc == 1]
        flag = "ok  " if (caught or not index[name]) else "MISS"
        if flag == "MISS":
            missed += 1
        print(f"{flag} {name:36s} {tests:18s} " + " ".join(f"{c}:{rc}{m[:2]}" for c, (rc, m) in res.items()))
shutil.rmtree(base, ignore_errors=True)
sys.exit(1 if missed else 0)
