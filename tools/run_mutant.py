#!/venv/bin/python
"""Run quick checks against a scratch copy of /repo carrying a deliberate break.

usage: tools/run_mutant.py <patch.diff | 'sed:FILE:OLD:NEW'> C01 C02 ...   [--tier quick]
The copy lives under /tmp and is removed afterwards.  Exit 0 if at least one of the
named checks reports a VIOLATION (the break is caught), 1 otherwise.
"""

import os
import shutil
import subprocess
import sys
import tempfile
from pathlib import Path

VERIF = Path(__file__).resolve().parent.parent


def main() -> int:
    args = [a for a in sys.argv[1:] if not a.startswith("--")]
    tier = "quick"
    if "--tier" in sys.argv:
        tier = sys.argv[sys.argv.index("--tier") + 1]
        args = [a for a in args if a != tier]
    patch, checks = args[0], args[1:]
    scratch = Path(tempfile.mkdtemp(prefix="vf-mut-"))
    try:
        subprocess.run(["git", "-C", "/repo", "worktree", "prune"], check=False)
        dst = scratch / "repo"
        shutil.copytree("/repo", dst, ignore=shutil.ignore_patterns(".git", "__pycache__", "docs", "*.pyc"))
        for f in list(dst.glob("src/**/*.py")) + list(dst.glob("tests/**/*.py")):
            b = f.read_bytes()
            if b"\r\n" in b:
                f.write_bytes(b.replace(b"\r\n", b"\n"))  # patches are LF (git-normalised)
        if patch.startswith("sed:"):
            _, rel, old, new = patch.split(":", 3)
            p = dst / rel
            s = p.read_text()
            if old not in s:
                print(f"pattern not found in {rel}")
                return 2
            p.write_text(s.replace(old, new, 1))
        else:
            r = subprocess.run(["patch", "-p1", "--no-backup-if-mismatch", "-d", str(dst), "-i", str(Path(patch).resolve())],
                               capture_output=True, text=True)
            if r.returncode != 0:
                print("patch failed:", r.stdout, r.stderr)
                return 2
        caught = []
        for c in checks:
            e = dict(os.environ, VERIF_REPO=str(dst), VERIF_EVIDENCE_DIR=str(scratch / "evidence"))
            r = subprocess.run([str(VERIF / "check"), c, "--tier", tier], env=e, capture_output=True, text=True)
            viol = [ln for ln in r.stdout.splitlines() if ln.startswith("VIOLATION") or ln.startswith("  mechanism")]
            print(f"--- {c}: exit {r.returncode}")
            for ln in viol[:6]:
                print("   ", ln[:300])
            if r.returncode not in (0, 1):
                print(r.stdout[-1500:], r.stderr[-1500:])
            if r.returncode == 1:
                caught.append(c)
        print("CAUGHT by", caught if caught else "nothing")
        return 0 if caught else 1
    finally:
        shutil.rmtree(scratch, ignore_errors=True)


if __name__ == "__main__":
    sys.exit(main())
