#!/venv/bin/python
"""Prepare a round of seeded-break sub-agents: one scratch git worktree of /repo per
property under <root> (outside /repo and /verif) and one prompt per property that
contains only the property text, the working rules and a one-line list of what was
already planted (clause || first words of the change) so that new ones differ.

usage: tools/seed_round.py <root> <round-no> <guidance-file> [--with-prior]    # creates worktrees + <root>/prompts/Cnn.txt
       (--with-prior adds one line per earlier planted defect, taken from the sub-agents' own reports, so that new ones differ)
       tools/seed_round.py <root> --remove                       # removes the worktrees again
"""

import json
import subprocess
import sys
from pathlib import Path

VERIF = Path(__file__).resolve().parent.parent

TEMPLATE = """You are helping to evaluate a verification framework by planting a realistic, subtle defect in a Python library.

The library is `aioswitcher` (asyncio client for Switcher smart-home devices). You have your OWN scratch git worktree of it at {wt} . Work ONLY inside that directory. Do NOT read, list or touch /verif or /repo or any other {root}/* directory — your work must be independent of them.

Running things: always use the interpreter /venv/bin/python with `PYTHONPATH={wt}/src` set, because an editable install of another copy exists; confirm with
  cd {wt} && PYTHONPATH={wt}/src /venv/bin/python -c "import aioswitcher; print(aioswitcher.__file__)"   (must print a path under {wt}).
The existing test suite: `cd {wt} && PYTHONPATH={wt}/src /venv/bin/python -m pytest -q -p no:cacheprovider tests`. On the unmodified tree 172 or 173 tests pass and 20-21 fail (20 fail because a data file was emptied on purpose; `test_pretty_next_run_with_todays_day_should_return_due_today` additionally fails between 23:00 and 23:59 UTC — both are expected and not your concern). There is no network; nothing can be installed. time_machine, pytest, hypothesis are available in /venv.

THE PROPERTY the library is supposed to satisfy (id {pid}: {title}):
  Statement: {statement}
  Quantified over: {quant}
  Code it is anchored in: {files}

YOUR TASK: produce TWO different, independent changes (call them variant a and variant b) to the library source under {wt}/src that each BREAK this property, while
  (1) the code still imports/compiles, and
  (2) exactly the same tests of the existing suite pass as before your change (run the suite before and after and compare the pass/fail sets), and
  (3) the breakage is REALISTIC (the kind of slip a maintainer could make in a refactor, optimisation or "small improvement") and SUBTLE: it must need something specific to manifest. Do NOT produce changes that ordinary single-shot use with typical inputs would expose at once, and do not just delete the feature.
  Prefer the two variants to break DIFFERENT parts of the statement, through different mechanisms.
For each variant also write a small demonstration program (plain python script, no pytest needed) that exits with status 0 on the unmodified tree and non-zero (with a clear message) on the modified tree, showing the property being violated through the library's public behaviour (it may use sockets on 127.0.0.1, asyncio, time_machine, os.environ['TZ']+time.tzset, etc.). The demo must be deterministic and finish in a few seconds.

DELIVERABLES — create the directory {wt}/OUT and put there:
  a.diff, b.diff      : `git diff` output (run inside {wt}, source changes only; do not include OUT/ or the demos) for each variant, each against the UNMODIFIED tree (so: make variant a, save a.diff, `git checkout -- src` , make variant b, save b.diff, `git checkout -- src`).
  demo_a.py, demo_b.py: the demonstrations (they must find the library via PYTHONPATH, i.e. be runnable as `PYTHONPATH={wt}/src /venv/bin/python OUT/demo_a.py`).
  meta.json           : {{"a": {{"summary": "...", "breaks": "which part of the statement", "needs_to_manifest": "...", "files": [...]}}, "b": {{...}}}}
Before finishing, VERIFY for each variant: apply the diff on a clean tree (`git apply OUT/a.diff`), run the test suite (same pass set as the unmodified tree), run the demo (non-zero), revert (`git checkout -- src`), run the demo again (zero). Leave the worktree's src clean (unmodified) at the end.
Your final message should be a short report: for each variant one paragraph (what was changed, what it needs to manifest, verification results).

ADDITIONAL GUIDANCE FOR THIS ROUND (round {rnd}): {prior}{guidance}
As before the statement's wording is the judge and the demo must show the contradiction through public behaviour, for inputs/sequences the 'Quantified over' line covers.
"""


def main():
    root = Path(sys.argv[1])
    props = [json.loads(l) for l in open(VERIF / "properties.jsonl")]
    if sys.argv[2] == "--remove":
        for p in props:
            subprocess.run(["git", "-C", "/repo", "worktree", "remove", "--force", str(root / p["id"])], capture_output=True)
        subprocess.run(["git", "-C", "/repo", "worktree", "prune"])
        return
    rnd, guidance = sys.argv[2], Path(sys.argv[3]).read_text().strip()
    (root / "prompts").mkdir(parents=True, exist_ok=True)
    for p in props:
        pid = p["id"]
        wt = root / pid
        if not wt.exists():
            subprocess.run(["git", "-C", "/repo", "worktree", "add", "--detach", str(wt), "HEAD"], check=True, capture_output=True)
        prior = []
        for d in sorted((VERIF / "seeded").glob(f"{pid}-*")):
            m = json.loads((d / "meta.json").read_text())
            prior.append(f"  - {str(m.get('breaks', ''))[:90]} || {str(m.get('summary', ''))[:120]}")
        with_prior = "--with-prior" in sys.argv
        prior_text = (f"{len(prior)} defects were already planted for this property by others (clause broken || what was changed):\n"
                      + "\n".join(prior) + "\nYours must differ from all of them in trigger AND mechanism. ") if with_prior else ""
        text = TEMPLATE.format(wt=wt, root=root, pid=pid, title=p["title"], statement=p["statement"], quant=p["quantifier"]["text"],
                               files=", ".join(p["anchors"]["files"]), rnd=rnd, prior=prior_text, guidance=guidance)
        (root / "prompts" / f"{pid}.txt").write_text(text)
    print(f"{len(props)} worktrees and prompts under {root}")


if __name__ == "__main__":
    main()
