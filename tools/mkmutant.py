#!/venv/bin/python
"""tools/mkmutant.py NAME REL_FILE <<< 'OLD\n====\nNEW'   -> tools/mutants/NAME.diff (unified diff against /repo)"""
import difflib
import sys
from pathlib import Path

name, rel = sys.argv[1], sys.argv[2]
old, new = sys.stdin.read().split("\n====\n")
new = new.rstrip("\n") if not old.endswith("\n") else new
src = Path("/repo") / rel
s = src.read_text()
if old.rstrip("\n") not in s:
    sys.exit(f"pattern not found in {rel}")
t = s.replace(old.rstrip("\n"), new.rstrip("\n"), 1)
diff = "".join(difflib.unified_diff(s.splitlines(True), t.splitlines(True), f"a/{rel}", f"b/{rel}"))
out = Path(__file__).resolve().parent / "mutants" / f"{name}.diff"
out.write_text(diff)
print(out, len(diff.splitlines()), "lines")
