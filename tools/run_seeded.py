#!/venv/bin/python
"""Regression over every stored seeded break: patch a scratch copy of /repo, run the property's quick check
(VERIF_REPO=<copy>), expect exit 1.  usage: tools/run_seeded.py [name-filter ...] [--update]"""
import json
import os
import re
import shutil
import subprocess
import sys
import tempfile
from concurrent.futures import ThreadPoolExecutor
from pathlib import Path

VERIF = Path(__file__).resolve().parent.parent
sys.path.insert(0, str(VERIF / "tools"))
from seed_verify import copy_repo  # noqa

args = [a for a in sys.argv[1:] if not a.startswith("--")]
update = "--update" in sys.argv
base = Path(tempfile.mkdtemp(prefix="vf-seeded-"))


def one(d: Path):
    meta = json.loads((d / "meta.json").read_text())
    pid = meta["breaks_property"]
    dst = base / d.name
    copy_repo(dst)
    r = subprocess.run(["patch", "-p1", "--no-backup-if-mismatch", "-d", str(dst), "-i", str(d / "patch.diff")], capture_output=True, text=True)
    if r.returncode:
        return d.name, pid, "PATCH-FAILED", []
    e = dict(os.environ, VERIF_REPO=str(dst), VERIF_EVIDENCE_DIR=str(dst / "_ev"))
    cr = subprocess.run([str(VERIF / "check"), pid, "--jobs", "6"], env=e, capture_output=True, text=True)
    mechs = re.findall(r"mechanism=(.+?) occurrences=(\d+)", cr.stdout)
    shutil.rmtree(dst, ignore_errors=True)
    if update:
        meta.setdefault("checks", {})[pid] = {"exit": cr.returncode, "mechanisms": mechs[:6]}
        meta["caught_by"] = sorted(set([c for c, v in meta["checks"].items() if v["exit"] == 1]))
        (d / "meta.json").write_text(json.dumps(meta, indent=1) + "\n")
    return d.name, pid, cr.returncode, mechs[:3]


dirs = sorted(x for x in (VERIF / "seeded").iterdir() if (x / "patch.diff").exists() and (not args or any(a in x.name for a in args)))
missed = 0
with ThreadPoolExecutor(5) as ex:
    for name, pid, rc, mechs in ex.map(one, dirs):
        flag = "ok  " if rc == 1 else "MISS"
        missed += flag == "MISS"
        print(f"{flag} {name:8s} {pid} exit={rc} {mechs}")
shutil.rmtree(base, ignore_errors=True)
print(f"{len(dirs) - missed}/{len(dirs)} seeded breaks caught")
sys.exit(1 if missed else 0)
