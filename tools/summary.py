#!/venv/bin/python
"""Prints a markdown table of what the last run of every check covered (from evidence/*.json)."""
import json
from pathlib import Path

root = Path(__file__).resolve().parent.parent
print("| id | tier | evaluations | distinct non-trivial | unspecified skipped | exhaustive | wall s | verdict |")
print("|---|---|---|---|---|---|---|---|")
for f in sorted((root / "evidence").glob("C*.json")):
    e = json.loads(f.read_text())
    c = e["coverage"]
    print(f"| {e['property_id']} | {e['tier']} | {c['evaluations']:,} | {c['distinct_nontrivial']:,} | {c.get('unspecified_skipped', 0):,} | "
          f"{'yes' if c.get('exhaustive') else 'no'} | {e['wall_s']} | {c.get('verdict')} |")
