#!/venv/bin/python
"""Confirm a seeded break delivered by a sub-agent and run the checks against it.

usage: tools/seed_verify.py C03 a [--checks C03,C02] [--tier quick] [--keep-as NAME]

Reads /tmp/seed/<PID>/OUT/{<v>.diff, demo_<v>.py, meta.json}.  In scratch copies of
/repo (outside /repo and /verif, removed afterwards) it confirms that
  1. the patch applies and the library imports,
  2. the existing suite passes exactly the same tests with and without it,
  3. the demonstration exits 0 without the patch and non-zero with it,
then runs the named checks (default: the property's own) with VERIF_REPO pointing
at the patched copy.  With --keep-as it stores patch, demo and meta.json under
/verif/seeded/<NAME>/.
"""

import json
import os
import re
import shutil
import subprocess
import sys
import tempfile
import time
from pathlib import Path

VERIF = Path(__file__).resolve().parent.parent
PY = "/venv/bin/python"


def copy_repo(dst: Path):
    shutil.copytree("/repo", dst, ignore=shutil.ignore_patterns(".git", "__pycache__", "docs", "*.pyc", "OUT"))
    for f in list(dst.glob("src/**/*.py")) + list(dst.glob("tests/**/*.py")):
        b = f.read_bytes()
        if b"\r\n" in b:
            f.write_bytes(b.replace(b"\r\n", b"\n"))


def run_tests(root: Path):
    e = dict(os.environ, PYTHONPATH=str(root / "src"), PYTHONDONTWRITEBYTECODE="1")
    r = subprocess.run([PY, "-m", "pytest", "-q", "-p", "no:cacheprovider", "--timeout=300", "-rA", "tests"],
                       cwd=root, env=e, capture_output=True, text=True)
    passed = set(re.findall(r"^PASSED (\S+)", r.stdout, re.M))
    failed = set(re.findall(r"^(?:FAILED|ERROR) (\S+)", r.stdout, re.M))
    return passed, failed, r.stdout[-600:]


def run_demo(root: Path, demo: Path):
    e = dict(os.environ, PYTHONPATH=str(root / "src"), PYTHONDONTWRITEBYTECODE="1")
    try:
        r = subprocess.run([PY, str(demo)], cwd=root, env=e, capture_output=True, text=True, timeout=120)
        return r.returncode, (r.stdout + r.stderr)[-600:]
    except subprocess.TimeoutExpired:
        return 124, "timeout"


def main() -> int:
    args = sys.argv[1:]
    pid, variant = args[0], args[1]
    checks = [pid]
    tier, keep = "quick", None
    if "--checks" in args:
        checks = args[args.index("--checks") + 1].split(",")
    if "--tier" in args:
        tier = args[args.index("--tier") + 1]
    if "--keep-as" in args:
        keep = args[args.index("--keep-as") + 1]
    root = args[args.index("--root") + 1] if "--root" in args else "/tmp/seed"
    out = Path(f"{root}/{pid}/OUT")
    patch, demo = out / f"{variant}.diff", out / f"demo_{variant}.py"
    meta_all = json.loads((out / "meta.json").read_text()) if (out / "meta.json").exists() else {}
    meta = meta_all.get(variant, {})
    scratch = Path(tempfile.mkdtemp(prefix="vf-seed-"))
    report = {"property": pid, "variant": variant, "agent_meta": meta, "ran": []}
    try:
        clean, mut = scratch / "clean", scratch / "mut"
        copy_repo(clean)
        copy_repo(mut)
        r = subprocess.run(["patch", "-p1", "--no-backup-if-mismatch", "-d", str(mut), "-i", str(patch)], capture_output=True, text=True)
        report["patch_applies"] = r.returncode == 0
        if r.returncode != 0:
            print("PATCH DOES NOT APPLY:", r.stdout[-400:], r.stderr[-400:])
            return 2
        p0, f0, _ = run_tests(clean)
        p1, f1, tail = run_tests(mut)
        for _ in range(2):
            if p0 == p1:
                break
            # the suite has two clock-dependent tests (minute boundary, 23:xx UTC): re-run both sides before judging
            p0, f0, _ = run_tests(clean)
            p1, f1, tail = run_tests(mut)
        report["tests_clean"] = {"passed": len(p0), "failed": len(f0)}
        report["tests_patched"] = {"passed": len(p1), "failed": len(f1)}
        report["same_pass_set"] = p0 == p1
        if p0 != p1:
            print("TEST SETS DIFFER: newly failing", sorted(p0 - p1)[:5], "newly passing", sorted(p1 - p0)[:5])
        rc0, o0 = run_demo(clean, demo)
        rc1, o1 = run_demo(mut, demo)
        report["demo_clean_exit"], report["demo_patched_exit"] = rc0, rc1
        report["demo_patched_output"] = o1[-300:]
        print(f"{pid}/{variant}: tests clean {len(p0)}p/{len(f0)}f patched {len(p1)}p/{len(f1)}f same={p0 == p1}; demo clean={rc0} patched={rc1}")
        if rc0 != 0:
            print("  demo on clean tree:", o0[-300:])
        confirmed = report["same_pass_set"] and rc0 == 0 and rc1 != 0
        report["confirmed"] = confirmed
        caught = {}
        for c in checks:
            t0 = time.time()
            e = dict(os.environ, VERIF_REPO=str(mut), VERIF_EVIDENCE_DIR=str(scratch / "evidence"))
            cr = subprocess.run([str(VERIF / "check"), c, "--tier", tier], env=e, capture_output=True, text=True)
            mechs = re.findall(r"mechanism=(\S+) occurrences=(\d+)", cr.stdout)
            caught[c] = {"exit": cr.returncode, "mechanisms": mechs[:6], "wall_s": round(time.time() - t0, 1)}
            report["ran"].append(f"VERIF_REPO=<patched copy> ./check {c} --tier {tier} -> exit {cr.returncode}")
            print(f"  check {c} [{tier}]: exit {cr.returncode} {mechs[:4]}")
            if cr.returncode == 2:
                print(cr.stdout[-800:])
        report["checks"] = caught
        report["caught_by"] = [c for c, v in caught.items() if v["exit"] == 1]
        if keep:
            d = VERIF / "seeded" / keep
            d.mkdir(parents=True, exist_ok=True)
            shutil.copy(patch, d / "patch.diff")
            shutil.copy(demo, d / "demo.py")
            (d / "meta.json").write_text(json.dumps({
                "breaks_property": pid, "summary": meta.get("summary"), "breaks": meta.get("breaks"),
                "needs_to_manifest": meta.get("needs_to_manifest"), "files": meta.get("files"),
                "confirmed": {"patch_applies": True, "same_tests_pass": report["same_pass_set"],
                              "tests_clean": report["tests_clean"], "tests_patched": report["tests_patched"],
                              "demo_exit_without_patch": rc0, "demo_exit_with_patch": rc1},
                "what_i_ran": ["patch -p1 on a scratch copy of /repo (LF-normalised)", "pytest tests (pass sets compared with a clean copy)",
                               "demo.py on clean and patched copy"] + report["ran"],
                "checks": caught, "caught_by": report["caught_by"],
            }, indent=1) + "\n")
        print("  CONFIRMED" if confirmed else "  NOT CONFIRMED", "| caught by", report["caught_by"] or "NOTHING")
        return 0
    finally:
        shutil.rmtree(scratch, ignore_errors=True)


if __name__ == "__main__":
    sys.exit(main())
