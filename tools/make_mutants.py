#!/venv/bin/python
"""(Re)generates tools/mutants/*.diff : my own deliberate breaks (DESIGN.md section 7) and
tools/mutants/INDEX.json (name -> properties expected to catch it)."""
import difflib
import json
from pathlib import Path

API = "src/aioswitcher/api/__init__.py"
PK = "src/aioswitcher/api/packets.py"
MSG = "src/aioswitcher/api/messages.py"
REM = "src/aioswitcher/api/remotes.py"
BR = "src/aioswitcher/bridge.py"
DT = "src/aioswitcher/device/tools.py"
DV = "src/aioswitcher/device/__init__.py"
ST = "src/aioswitcher/schedule/tools.py"
SP = "src/aioswitcher/schedule/parser.py"

M = [
    # name, file, old, new, expected checks
    ("c02_template_byte", PK, '"00060000"', '"00060100"', ["C02"]),
    ("c02_timer_big_endian", DT, 'return hexlify(pack("<I", minutes * 60)).decode()', 'return hexlify(pack(">I", minutes * 60)).decode()', ["C02"]),
    ("c02_position_swapped_args", API, "packet = packets.RUNNER_SET_POSITION.format(\n            login_resp.session_id, timestamp, self._device_id, hex_pos",
     "packet = packets.RUNNER_SET_POSITION.format(\n            timestamp, login_resp.session_id, self._device_id, hex_pos", ["C02", "C03"]),
    ("c02_autooff_upper_bound", DT, "if 3599 < seconds < 86341:", "if 3599 < seconds < 86401:", ["C02"]),
    ("c02_name_33", DT, "len(encoded_name) < 33", "len(encoded_name) < 34", ["C02", "C01"]),
    ("c01_length_one_byte", DT, 'length = hexlify(pack("<H", len(unhexlify(message + "00000000")))).decode()',
     'length = hexlify(pack("<H", len(unhexlify(message + "00000000")) & 0xFF)).decode()', ["C01"]),
    ("c01_skip_sign_long", API, "        packet = set_message_length(packet)\n        signed_packet = sign_packet_with_crc_key(packet)\n\n        logger.debug(\"sending a control packet\")\n\n        self._writer.write(unhexlify(signed_packet))\n        response = await self._reader.read(1024)\n        return SwitcherBaseResponse(response)\n\n    async def set_position",
     "        packet = set_message_length(packet)\n        signed_packet = sign_packet_with_crc_key(packet) if len(packet) < 1200 else packet + \"00000000\"\n\n        logger.debug(\"sending a control packet\")\n\n        self._writer.write(unhexlify(signed_packet))\n        response = await self._reader.read(1024)\n        return SwitcherBaseResponse(response)\n\n    async def set_position", ["C01"]),
    ("c03_class_level_timestamp", API, "        timestamp = current_timestamp_to_hexadecimal()\n        if (",
     "        timestamp = current_timestamp_to_hexadecimal()\n        SwitcherApi._ts = timestamp\n        if (", ["C03"]),  # completed below
    ("c03_session_cached_per_instance", API, "        return timestamp, SwitcherLoginResponse(response)",
     "        resp = SwitcherLoginResponse(response)\n        if not getattr(self, \"_sid\", None):\n            self._sid = resp.session_id\n        resp.session_id = self._sid\n        return timestamp, resp", ["C03", "C02"]),
    ("c04_lowercases_input", DT, "    return hex_packet + hex_packet_crc_sliced + hex_key_crc_sliced", "    return hex_packet.lower() + hex_packet_crc_sliced + hex_key_crc_sliced", ["C04"]),
    ("c04_crc_truncates_long", DT, '    binary_packet_crc = pack(">I", crc_hqx(binary_packet, 0x1021))', '    binary_packet_crc = pack(">I", crc_hqx(binary_packet[:2048], 0x1021))', ["C04"]),
    ("c04_accepts_odd", DT, "    binary_packet = unhexlify(hex_packet)\n    binary_packet_crc", "    binary_packet = unhexlify(hex_packet if len(hex_packet) % 2 == 0 else hex_packet + \"0\")\n    binary_packet_crc", ["C04"]),
    ("c05_target_temp_offset", BR, "hex_temp = hexlify(self.message[139:140]).decode()\n        return int(hex_temp, 16)", "hex_temp = hexlify(self.message[138:139]).decode()\n        return int(hex_temp, 16)", ["C05"]),
    ("c05_off_not_normalised", BR, "        else:\n            power_consumption = 0\n            electric_current = 0.0", "        else:\n            power_consumption = parser.get_power_consumption()\n            electric_current = 0.0", ["C05"]),
    ("c05_power_one_byte", BR, "return int(hex_power_consumption[2:4] + hex_power_consumption[0:2], 16)", "return int(hex_power_consumption[0:2], 16) if hex_power_consumption[2:4] == b\"00\" else int(hex_power_consumption[2:4] + hex_power_consumption[0:2], 16)", []),
    ("c05_name_strip", BR, 'return self.message[42:74].decode().rstrip("\\x00")', 'return self.message[42:74].decode().rstrip("\\x00").strip()', ["C05"]),
    ("c05_runner_ip_type1", BR, "                    parser.get_ip_type2(),\n                    parser.get_mac_type2(),\n                    parser.get_name(),\n                    parser.get_shutter_position(),",
     "                    parser.get_ip_type1(),\n                    parser.get_mac_type2(),\n                    parser.get_name(),\n                    parser.get_shutter_position(),", ["C05"]),
    ("c06_gate_extra_length", BR, "            or len(self.message) == 159  # Switcher Runner and RunnerMini", "            or len(self.message) == 159  # Switcher Runner and RunnerMini\n            or len(self.message) == 167", ["C06"]),
    ("c06_gate_magic_weak", BR, 'return hexlify(self.message)[0:4].decode() == "fef0" and (', 'return hexlify(self.message)[0:2].decode() == "fe" and (', ["C06"]),
    ("c06_warn_removed", BR, '            warn("discovered an unknown switcher device")', '            logger.debug("discovered an unknown switcher device")', ["C06"]),
    ("c08_thermostat_temp_byteorder", MSG, "return int(self._hex_response[154:156] + self._hex_response[152:154], 16) / 10", "return int(self._hex_response[152:154] + self._hex_response[154:156], 16) / 10", ["C08"]),
    ("c08_time_on_offset", MSG, "hex_time_on = self._hex_response[186:194]", "hex_time_on = self._hex_response[178:186]", ["C08"]),
    ("c08_remote_id_strip", MSG, 'return remote_hex[84:92].decode().rstrip("\\x00")', 'return remote_hex[84:91].decode().rstrip("\\x00")', ["C08"]),
    ("c09_stop_no_login_guard", API, '        timestamp, login_resp = await self._login(DeviceType.RUNNER)\n        if not login_resp.successful:\n            logger.error("Failed to log into device with id %s", self._device_id)\n            raise RuntimeError("login request was not successful")\n\n        logger.debug(\n            "logged in session_id=%s, timestamp=%s", login_resp.session_id, timestamp\n        )\n\n        packet = packets.RUNNER_STOP_COMMAND',
     '        timestamp, login_resp = await self._login(DeviceType.RUNNER)\n\n        logger.debug(\n            "logged in session_id=%s, timestamp=%s", login_resp.session_id, timestamp\n        )\n\n        packet = packets.RUNNER_STOP_COMMAND', ["C09"]),
    ("c09_success_by_first_byte", MSG, "return self.unparsed_response is not None and len(self.unparsed_response) > 0", "return bool(self.unparsed_response) and self.unparsed_response[0] != 0", ["C09"]),
    ("c10_gmtime", ST, "    local_time = time.localtime(int_time)", "    local_time = time.gmtime(int_time)", ["C10", "C11"]),
    ("c10_record_stride", SP, "    hex_data_split = wrap(hex_data, 32)", "    hex_data_split = wrap(hex_data, 32)[:7]", ["C10"]),
    ("c10_recurring_flag", SP, '        return self.schedule[4:6] != b"00"', '        return self.schedule[2:4] != b"00" and self.schedule[4:6] != b"00"', ["C10"]),
    ("c11_mktime_utc", ST, "    timestamp = time.mktime(struct_timedate)", "    import calendar\n    timestamp = calendar.timegm(struct_timedate)", ["C11", "C02", "C10"]),
    ("c12_accepts_dup_tuple", ST, "        elif type(days) is set or len(days) == len(set(days)):  # type: ignore", "        elif type(days) in (set, tuple) or len(days) == len(set(days)):  # type: ignore", ["C12"]),
    ("c12_mask_254_rejected", ST, "    if 1 < sum_weekdays_bit < 255:", "    if 1 < sum_weekdays_bit < 254:", ["C12"]),
    ("c13_le", ST, "    if current_weekday in execution_days and current_time < schedule_time:", "    if current_weekday in execution_days and current_time <= schedule_time:", ["C13"]),
    ("c13_week_wrap", ST, "        next_exc_day == Days.MONDAY.weekday and current_weekday == Days.SUNDAY.weekday", "        next_exc_day == Days.MONDAY.weekday and current_weekday == Days.SATURDAY.weekday", ["C13"]),
    ("c14_le", ST, "    if end_datetime < start_datetime:", "    if end_datetime <= start_datetime:", ["C14"]),
    ("c15_clamp_off_by_one", REM, "        if target_temp > self._max_temp:\n            target_temp = self._max_temp", "        if target_temp >= self._max_temp:\n            target_temp = self._max_temp - 1", ["C15"]),
    ("c15_toggle_prefix_always", REM, "            if self._on_off_type and current_state and current_state != state:", "            if self._on_off_type and current_state:", ["C15", "C16"]),
    ("c15_fallback_pops_two", REM, "                removed_element = key.pop()", "                removed_element = key.pop()\n                if removed_element == \"_d1\" and len(key) > 2 and \"\".join(key) not in self._ir_wave_map:\n                    key.pop()", []),
    ("c15_min_temp_init", REM, "        self._min_temp = 100  # ridiculously high number", "        self._min_temp = 30  # high number", ["C15"]),
    ("c17_stop_skips_last_port", BR, "        for broadcast_port in self._broadcast_ports:\n            transport = self._transports.get(broadcast_port)", "        for broadcast_port in self._broadcast_ports[: max(1, len(self._broadcast_ports) - 1)]:\n            transport = self._transports.get(broadcast_port)", ["C17"]),
    ("c17_flag_before_bind", BR, '        for broadcast_port in self._broadcast_ports:\n            logger.info("starting the udp bridge on port %s", broadcast_port)', '        self._is_running = True\n        for broadcast_port in self._broadcast_ports:\n            logger.info("starting the udp bridge on port %s", broadcast_port)', []),
    ("c18_ctx_exit_skips_on_error", API, '        """Exit SwitcherApi asynchronous context manager."""\n        await self.disconnect()', '        """Exit SwitcherApi asynchronous context manager."""\n        if exc_type is None:\n            await self.disconnect()\n        else:\n            self._connected = False', ["C18"]),
    ("c18_flag_set_before_connect", API, '        logger.info("connecting to the switcher device")\n        self._reader, self._writer = await open_connection(', '        logger.info("connecting to the switcher device")\n        self._connected = True\n        self._reader, self._writer = await open_connection(', ["C18"]),
    ("c19_duplicate_code", DV, '    RUNNER_MINI = "Switcher Runner Mini", "0c02", 2, DeviceCategory.SHUTTER', '    RUNNER_MINI = "Switcher Runner Mini", "0c01", 2, DeviceCategory.SHUTTER', ["C19", "C05"]),
    ("c19_plug_guard_weak", DV, '        if self.device_type.category != DeviceCategory.POWER_PLUG:\n            raise ValueError("only power plugs are allowed")', '        if self.device_type.protocol_type != 1:\n            raise ValueError("only power plugs are allowed")', ["C19"]),
    ("c19_thermostat_tcp_port", API, "    DeviceCategory.THERMOSTAT: SWITCHER_TCP_PORT_TYPE2,", "    DeviceCategory.THERMOSTAT: SWITCHER_TCP_PORT_TYPE1,", ["C19"]),
]


def main():
    out = Path(__file__).resolve().parent / "mutants"
    out.mkdir(exist_ok=True)
    index = {}
    for name, rel, old, new, props in M:
        s = (Path("/repo") / rel).read_bytes().decode().replace("\r\n", "\n")
        if name == "c03_class_level_timestamp":
            # two cooperating sites: store at login, read back when building the get-state command
            t = s.replace(old, new, 1)
            t = t.replace("            packet = packets.GET_STATE_PACKET_TYPE1.format(\n                login_resp.session_id, timestamp, self._device_id",
                          "            packet = packets.GET_STATE_PACKET_TYPE1.format(\n                login_resp.session_id, SwitcherApi._ts, self._device_id", 1)
            t = t.replace("        packet = packets.GET_STATE_PACKET2_TYPE2.format(\n            login_resp.session_id, timestamp, self._device_id",
                          "        packet = packets.GET_STATE_PACKET2_TYPE2.format(\n            login_resp.session_id, SwitcherApi._ts, self._device_id", 1)
        else:
            if s.count(old) < 1:
                print("PATTERN NOT FOUND:", name)
                continue
            t = s.replace(old, new, 1)
        diff = "".join(difflib.unified_diff(s.splitlines(True), t.splitlines(True), f"a/{rel}", f"b/{rel}"))
        (out / f"{name}.diff").write_text(diff)
        index[name] = props
    for extra, props in (("c16_merge_default", ["C16"]), ("c16_swing_always", ["C16"]), ("c09_keyerror_only", ["C09"]),
                         ("c07_dedupe", ["C07"]), ("c07_close_on_error", ["C07"]), ("c18_class_level_flag", ["C18"]), ("c02_range_check_as_assert", ["C02"]), ("c17_deferred_dispatch", ["C17"])):
        if (out / f"{extra}.diff").exists():
            index[extra] = props
    (out / "INDEX.json").write_text(json.dumps(index, indent=1) + "\n")
    print(len(index), "mutants")


if __name__ == "__main__":
    main()
