#!/venv/bin/python
"""CRLF-preserving exact replacement in a /repo file:  tools/repo_edit.py REL_FILE <<< 'OLD\n====\nNEW'"""
import sys
from pathlib import Path

rel = sys.argv[1]
old, new = sys.stdin.read().split("\n====\n")
old, new = old.rstrip("\n"), new.rstrip("\n")
p = Path("/repo") / rel
raw = p.read_bytes()
crlf = b"\r\n" in raw
s = raw.decode().replace("\r\n", "\n")
if s.count(old) != 1:
    sys.exit(f"pattern occurs {s.count(old)} times in {rel}")
s = s.replace(old, new)
if crlf:
    s = s.replace("\n", "\r\n")
p.write_bytes(s.encode())
print("edited", rel, "(CRLF kept)" if crlf else "(LF)")
