#!/bin/sh
# The repository's own test suite with every contract monitor attached (DESIGN.md section 7, item 3)
cd /repo && PYTHONPATH=/verif:/verif/.deps exec /venv/bin/python -m pytest -q -p no:cacheprovider -p vf.pytest_contracts --timeout=900 "$@"
