"""Regenerates MANIFEST.json from the property modules that exist (run from /verif)."""

import json
import sys
from pathlib import Path

ROOT = Path(__file__).resolve().parent.parent
sys.path.insert(0, str(ROOT))
from vf import env  # noqa: E402

env.setup_sys_path()
from vf.worker import load_prop  # noqa: E402

ALL = [f"C{n:02d}" for n in range(1, 20)]
BASELINE_OFF = ("cd /repo && /venv/bin/python -m pytest -ra -q -p no:cacheprovider --timeout=900 "
                "--continue-on-collection-errors --junitxml=/tmp/aioswitcher_baseline_off.junit.xml")

checks, missing = [], []
for pid in ALL:
    try:
        p = load_prop(pid)
    except ModuleNotFoundError:
        missing.append(pid)
        continue
    checks.append({
        "property_id": pid,
        "quick_cmd": f"./check {pid} --tier quick",
        "thorough_cmd": f"./check {pid} --tier thorough",
        "evidence_file": f"/verif/evidence/{pid}.json",
        "replay_cmd_template": f"./check {pid} --replay {{path}}",
        "engine": "vf",
        "level_claimed": {
            "category": p.level,
            "text": p.level_text,
            "design_ref": f"DESIGN.md section 4, {pid}",
        },
        "level_note": p.level_note,
        "technique": p.technique,
    })

manifest = {
    "version": 1,
    "setup_cmd": "sh ./setup.sh",
    "hooks": {
        "guard": "AIOSWITCHER_VERIF",
        "enable": ("no source hooks are needed: every monitor observes at a boundary the harness owns (socket, callback, "
                   "return value, /proc/net) or is an icontract wrapper attached from outside at import time; the checks import "
                   "/repo/src directly (python -B, PYTHONPATH), so there is nothing to build"),
        "baseline_off_cmd": BASELINE_OFF,
        "source_commits": [],
        "add_only": True,
    },
    "engines": [{
        "name": "vf",
        "path": "/verif/vf",
        "serves_properties": [c["property_id"] for c in checks],
        "kind_free_text": ("runtime monitoring: the real library is driven by generated hostile workloads (fake TCP device, "
                           "UDP injector, virtual clock/zone) while wire, callback-log, contract and reach monitors judge every "
                           "observed event against an independent byte-level reference"),
    }],
    "checks": checks,
    "notes": ("Exit codes: 0 held on everything explored, 1 violation (VIOLATION line + replay file), 2 inconclusive "
              "(oracle self-test failed, anchored function never entered, watchdog, too few events). "
              "Known findings: /verif/known_findings.json, keyed by mechanism."),
    "not_applicable": [{"property_id": pid, "reason": "check not built yet in this session (runtime monitoring applies; see DESIGN.md section 4)"}
                       for pid in missing],
}
(ROOT / "MANIFEST.json").write_text(json.dumps(manifest, indent=1) + "\n")
try:
    import jsonschema

    jsonschema.validate(manifest, json.loads((ROOT / "schemas" / "MANIFEST.schema.json").read_text()))
    print("MANIFEST.json valid;", len(checks), "checks,", len(missing), "not yet built")
except ImportError:
    print("written (jsonschema unavailable)")
