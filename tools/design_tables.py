#!/venv/bin/python
"""Regenerates the generated region of DESIGN.md: coverage of the last run of every check,
my own mutant corpus (tools/mutants/RESULTS.txt) and the seeded breaks (seeded/*/meta.json)."""
import io
import json
import re
import subprocess
from pathlib import Path

root = Path(__file__).resolve().parent.parent
out = io.StringIO()
w = lambda *a: print(*a, file=out)

w("### 10.5 Coverage of the last committed run of every check (from `evidence/*.json`)\n")
w(subprocess.run([str(root / "tools/summary.py")], capture_output=True, text=True).stdout)

w("### 10.6 My own deliberate breaks (`tools/mutants/*.diff`, run by `tools/run_all_mutants.py`)\n")
w("`tests-same` = the repository's suite passes exactly the same tests with the break applied "
  "(the ones marked `tests-differ` are caught by the suite too and are kept only as sanity checks of the monitors).\n")
w("| break | existing tests | caught by (exit 1) → first mechanisms |")
w("|---|---|---|")
res = root / "tools/mutants/RESULTS.txt"
if res.exists():
    for line in res.read_text().splitlines():
        m = re.match(r"(ok|MISS)\s+(\S+)\s+(\S+)\s*(.*)", line)
        if m:
            flag, name, tests, rest = m.groups()
            rest = rest.replace("|", "/")
            w(f"| {name} | {tests} | {'**MISSED** ' if flag == 'MISS' else ''}{rest or '(no check expected: behaviour-preserving or unspecified)'} |")

w("\n### 10.7 Breaks written by independent sub-agents (`seeded/<id>/`)\n")
w("Each sub-agent got only the text of one property, the working rules and a scratch worktree (`tools/seed_round.py` writes the prompts; "
  "from round 2 on a paragraph of guidance steered the agents away from what earlier rounds had done - rounds 2-6 also listed, one line each, "
  "what earlier agents had planted for the same property, taken from those agents' own reports; nothing about the checks was ever given; "
  "round letters: a-b round 1 ... k-l round 6, m-n round 7, o-p round 8, q-r round 9, s-t round 10, u-v round 11 (ordinary slips), w-x round 12 (time-shifted effects), y-z round 13 (changes outside the anchored functions), za-zb round 14 (structural / control-flow refactors), zc-zd round 15 (cross-feature coupling), ze-zf round 16 (no theme: the agents were told a monitoring harness exists and asked to evade it); rounds 7+ were given no list of earlier plants). Every break below was confirmed by me in scratch "
  "copies (patch applies, same tests pass as on a clean copy, demo exits 0 without / non-zero with the patch) with "
  "`tools/seed_verify.py`, which also ran the checks against the patched copy.\n")
w("| seeded id | breaks | what it needs to manifest | caught by | mechanisms reported |")
w("|---|---|---|---|---|")
for d in sorted((root / "seeded").glob("*/meta.json")):
    m = json.loads(d.read_text())
    needs = (m.get("needs_to_manifest") or "").replace("\n", " ").replace("|", "/")
    needs = needs if len(needs) < 230 else needs[:227] + "..."
    summ = (m.get("summary") or "").replace("\n", " ").replace("|", "/")
    summ = summ if len(summ) < 200 else summ[:197] + "..."
    mechs = []
    for c, v in (m.get("checks") or {}).items():
        if v["exit"] == 1:
            mechs += [x[0] if isinstance(x, list) else str(x) for x in v["mechanisms"][:2]]
    note = m.get("note", "")
    caught = ", ".join(m.get("caught_by") or []) or "**nothing**"
    conf = m.get("confirmed", {})
    ok = conf.get("same_tests_pass") and conf.get("demo_exit_without_patch") == 0 and conf.get("demo_exit_with_patch")
    w(f"| {d.parent.name}{'' if ok else ' (not confirmed)'} | {m.get('breaks_property')}: {summ} | {needs} | {caught}{' — ' + note if note else ''} | {', '.join(mechs[:3])} |")

p = root / "DESIGN.md"
s = p.read_text()
a, b = s.index("<!-- BEGIN GENERATED TABLES -->"), s.index("<!-- END GENERATED TABLES -->")
s = s[:a] + "<!-- BEGIN GENERATED TABLES -->\n" + out.getvalue() + s[b:]
p.write_text(s)
print("DESIGN.md tables regenerated")
